"""Reasons for properties not (yet) claimed.  Entries marked TODO are being built; the three genuine
not-applicables are C13, C14, C18 (see DESIGN.md section 6)."""
TODO = "check not built yet in this revision of /verif (planned, see DESIGN.md section 5)"
REASONS = {
    "C01": TODO, "C02": TODO, "C03": TODO, "C04": TODO, "C05": TODO, "C06": TODO, "C07": TODO, "C08": TODO,
    "C09": TODO, "C10": TODO, "C11": TODO, "C12": TODO, "C15": TODO, "C16": TODO, "C19": TODO,
    "C13": "threads, wall-clock deadlines, sockets and an mpsc channel: Kani/CBMC has no concurrency or time model for Rust, and no bounded symbolic encoding of the watchdog/reader interleavings of the real code is within reach of the installed solver tooling",
    "C14": "certificate validation happens inside OpenSSL (FFI) or rustls/webpki/ring (crypto kernels); attohttpc only forwards flags into opaque FFI-backed builders whose state cannot be read back; not encodable",
    "C18": "decoding is encoding_rs/encoding_rs_io (table-driven, SIMD-specialised, unbounded input); the label lookup is a ~230-entry search not affordable symbolically; nothing attohttpc-owned remains to encode",
    "C17": TODO,
}
