"""Per-property check specifications (harness filters, features, bounds, kernels) for bin/check.

Harness naming convention (functions in /verif/harness/*.rs, compiled into attohttpc under cfg(kani)):
  cNN_q_<family>_<shape>     run in quick and thorough tiers
  cNN_t_<family>_<shape>     thorough tier only
  cNN_qtwin_… / cNN_twin_…   must-fail twin (same body + assert!(false)); must come back FAILURE
"""

COMMON_ASSUMPTIONS = [
    "Kani 0.68 / CBMC 6.11 (CaDiCaL) are sound for the compiled MIR; unwinding assertions enabled, so every loop bound is checked",
    "hooks under cfg(kani): ChunkedReader refill buffer 4 bytes instead of 64 KiB (H3); io::Error payload of InvalidResponse/Error conversions dropped (H4); BaseStream::Verif scripted transport and dial hook (H2)",
    "every result is bounded: it holds for all values of the symbolic inputs of each listed harness (shape), nothing is claimed outside the listed shapes",
]

PROPS = {}

DESCR = []  # (regex, text)


def describe(name):
    import re
    for rx, text in DESCR:
        if re.search(rx, name):
            return text
    return name


PROPS["C17"] = dict(
    filters={"quick": ["c17_q", "c17_qtwin"], "thorough": ["c17_"]},
    timeout_s={"quick": 300, "thorough": 900},
    kernel=["happy::intertwine", "Iterator::filter(is_ipv4/is_ipv6) as used in happy::connect"],
    bounds="resolver lists of 0..6 addresses with symbolic family per position; generic intertwine over lengths 0..3 x 0..3; unwind 8",
    outside="all clauses that need threads, sockets, time (success iff some address accepts, race interval, error choice)",
    stubs=[],
    assumptions=["only the ordering clause of C17 is decided"],
)
DESCR += [(r"c17_._intertwine_n(\d)", "resolver output of n addresses, each symbolically IPv4 or IPv6, through the two filters + intertwine; compared with reference ordering"),
          (r"c17_._intertwine_generic", "intertwine over two tagged sequences of symbolic lengths <=3")]
