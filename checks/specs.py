"""Per-property check specifications (harness filters, features, bounds, kernels) for bin/check.

Harness naming convention (functions in /verif/harness/*.rs, compiled into attohttpc under cfg(kani)):
  cNN_q_<family>_<shape>     run in quick and thorough tiers
  cNN_t_<family>_<shape>     thorough tier only
  cNN_qtwin_… / cNN_twin_…   must-fail twin (same body + assert!(false)); must come back FAILURE
"""

COMMON_ASSUMPTIONS = [
    "Kani 0.68 / CBMC 6.11 (CaDiCaL) are sound for the compiled MIR; unwinding assertions enabled, so every loop bound is checked",
    "hooks under cfg(kani): ChunkedReader refill buffer 4 bytes instead of 64 KiB (H3); io::Error payload of InvalidResponse/Error conversions dropped (H4); BaseStream::Verif scripted transport and dial hook (H2)",
    "every result is bounded: it holds for all values of the symbolic inputs of each listed harness (shape), nothing is claimed outside the listed shapes",
]

PROPS = {}

DESCR = []  # (regex, text)


def describe(name):
    import re
    for rx, text in DESCR:
        if re.search(rx, name):
            return text
    return name


PROPS["C17"] = dict(
    filters={"quick": ["c17_q", "c17_qtwin"], "thorough": ["c17_"]},
    timeout_s={"quick": 300, "thorough": 900},
    kernel=["happy::intertwine", "Iterator::filter(is_ipv4/is_ipv6) as used in happy::connect"],
    bounds="resolver lists of 0..6 addresses with symbolic family per position; generic intertwine over lengths 0..3 x 0..3; unwind 8",
    outside="all clauses that need threads, sockets, time (success iff some address accepts, race interval, error choice)",
    stubs=[],
    assumptions=["only the ordering clause of C17 is decided"],
)
DESCR += [(r"c17_._intertwine_n(\d)", "resolver output of n addresses, each symbolically IPv4 or IPv6, through the two filters + intertwine; compared with reference ordering"),
          (r"c17_._intertwine_generic", "intertwine over two tagged sequences of symbolic lengths <=3")]

PROPS["C11"] = dict(
    filters={"quick": ["c11_q", "c11_qtwin"], "thorough": ["c11_"]},
    timeout_s={"quick": 900, "thorough": 2400},
    mem_gb=24, jobs={"quick": 10, "thorough": 8},
    kernel=["ProxySettings::for_url", "ProxySettingsBuilder::{new,http_proxy,https_proxy,add_no_proxy_host,build}",
            "ProxySettings::from_env", "get_env", "get_env_url", "url::Url::{host_str,scheme} on factory-built Urls"],
    bounds="domain hosts of 1..6 symbolic bytes over {a,b,.,-}; 0..2 no-proxy entries of 0..5 symbolic bytes over {a,b,A,B,.,-} "
           "(no leading dot); IPv4/IPv6 literal hosts with entries of 1..8 symbolic bytes; scheme, proxy presence, disable flag symbolic; unwind 12",
    outside="the environment clause (ProxySettings::from_env: precedence, NO_PROXY parsing) is NOT decided: not encodable within reach, see harness/proxy.rs; non-ASCII hosts/entries (str::to_lowercase stubbed by an ASCII model); URLs outside the factory grammar; builder entries with a leading dot; suffix relation on IP literals",
    level_note="PARTIAL: for_url (on settings as the constructors leave them) and the builder (incl. composition builder -> for_url with mixed-case entries) are decided; ProxySettings::from_env is not.",
    stubs=["str::to_lowercase -> ASCII lowering", "Url built by the validated field mirror instead of Url::parse"],
    assumptions=["Url factory validated natively against Url::parse (tools/urlfactory)"],
)
DESCR += [(r"c11_._forurl_h(\d)", "for_url on a domain host of symbolic bytes against symbolic no-proxy entries (shape in the name: h=host length, e=entry lengths)"),
          (r"c11_._forurl_ip", "for_url on an IP-literal host against one symbolic no-proxy entry")]

_BODY_KERNEL = ["ChunkedReader::{new,fill_buf,consume,read,read_chunk_size}", "parse_chunk_size", "buffers::{read_line,read_line_ending}",
                "BodyReader::{read,fill_buf,consume}", "std::io::{BufReader,Take} as instantiated", "BaseStream::read (Verif arm)"]

PROPS["C01"] = dict(
    filters={"quick": ["c01_q", "c01_qtwin"], "thorough": ["c01_"]},
    timeout_s={"quick": 600, "thorough": 3600},
    kernel=_BODY_KERNEL + ["parse_response (head/body hand-off of the shared BufReader)", "ResponseReader::{bytes,write_to,text_utf8}"],
    bounds="chunked bodies of <=3 chunks with sizes from {1,2,3,4,5,9,10,17}, leading zeros <=2, extensions none/;x/;x=y/blank, bare-LF lines, 0..3 garbage bytes after the frame; "
           "length/close bodies of 0..6 bytes; segmentation Whole/OneByte/SplitAt/Max(k); BufReader capacity 1..64; caller read size 1,2,3,8; refill buffer 4 (hook H3); unwind 40",
    outside="payloads beyond 24 bytes and the production 64 KiB refill constant (argued by parametricity of the refill logic); chunk-size lines of symbolic length",
    stubs=[],
    assumptions=["scripted transport contract: a read with a non-empty buffer returns >= 1 byte while bytes are available"],
)
DESCR += [(r"c01_._chunked", "well-formed chunked body (shape in the name) with symbolic payload/extension/garbage bytes read to EOF; delivered bytes compared with the generator's payload"),
          (r"c01_._length", "Content-Length body with symbolic payload and trailing garbage, read to EOF through BodyReader::Length"),
          (r"c01_._close", "close-delimited body with symbolic payload read to EOF through BodyReader::Close")]

PROPS["C02"] = dict(
    filters={"quick": ["c02_q", "c02_qtwin", "c05_q_step"], "thorough": ["c02_", "c05_q_step", "c05_t_step"]},
    timeout_s={"quick": 600, "thorough": 1800},
    kernel=_BODY_KERNEL,
    bounds="every cut offset of each listed frame (chunked shapes of <=2 chunks of <=5 bytes, length/close bodies of 4 bytes) x fault in {EOF, ConnectionReset, WouldBlock, TimedOut} "
           "x {fault persists, fault once then the rest of the wire arrives} x 2 further reads after the first terminal result; single-byte corruption of the line ending after chunk data (symbolic replacement byte); unwind 40",
    outside="corruptions of size-line bytes (only the no-panic part is claimed, under C05); payloads beyond the listed sizes",
    stubs=["core::slice::memchr::memchr -> naive byte loop", "core::str::from_utf8 -> byte-wise RFC 3629 validator (std's depends on align_offset, nondeterministic under Kani)"],
    assumptions=["scripted transport contract as in C01"],
)
DESCR += [(r"c02_._chunked", "chunked frame cut at every byte offset, then the named fault (persisting or transient); prefix property and no-clean-EOF checked incl. 2 reads after the error"),
          (r"c02_._length", "Content-Length body cut at every offset, then the named fault"),
          (r"c02_._close", "close-delimited body hit by the named fault at every offset")]

PROPS["C19"] = dict(
    filters={"quick": ["c19_q", "c19_qtwin"], "thorough": ["c19_"]},
    timeout_s={"quick": 600, "thorough": 1800},
    kernel=_BODY_KERNEL + ["parse_response_head (returns at the blank line)"],
    bounds="every pause offset of each listed frame (chunked shapes of <=3 chunks, sizes 1..17; length/close bodies of 1..6 bytes) x segmentation before the pause (Whole/OneByte/Max/SplitAt) "
           "x BufReader capacity 1..64 x caller read size 1,2,3,8; payload symbolic; unwind 40",
    outside="compressed bodies; read-to-EOF helpers (they read to EOF by contract); heads with header fields for the 'returns at the blank line' clause (header-less heads are decided: c19_*_head_returns_*)",
    stubs=["core::slice::memchr::memchr -> naive byte loop", "core::str::from_utf8 -> byte-wise validator", "io::Error::is_interrupted -> false"],
    assumptions=["'the server pauses' is encoded as: a transport read issued when the cursor is at the pause offset is recorded (end_hits) and answered with WouldBlock",
                 "for chunked bodies only chunks that arrived completely (including their line ending) must be deliverable"],
)
DESCR += [(r"c19_._head_returns", "parse_response_head on a complete head followed by a pause: returns without asking the transport for more"),
          (r"c19_._chunked", "chunked frame, server pauses after each offset in the range; every fully arrived chunk must be readable without the transport being asked for more"),
          (r"c19_._(length|close)", "raw body, server pauses after each offset; every arrived byte must be readable without the transport being asked for more")]

PROPS["C05"] = dict(
    filters={"quick": ["c05_q", "c05_qtwin", "c04_q_read_line"], "thorough": ["c05_", "c04_q_read_line", "c04_t_read_line"]},
    timeout_s={"quick": 600, "thorough": 3600},
    kernel=["parse_chunk_size", "ChunkedReader::{fill_buf,read,read_chunk,read_chunk_size}", "buffers::{read_line,read_line_strict,read_line_ending}",
            "parse_response_head (limits)", "plus every Rust panic / overflow / bounds check on all paths of the C01, C02, C03, C04, C12, C19 harnesses (reported there)"],
    bounds="parse_chunk_size on ALL byte strings of length 0..5 and on all 16/17-hex-digit strings; read_line/read_line_strict on ALL byte strings of length <=5 with limits 0..6; "
           "declared chunk sizes 2^31, 2^62, 2^63, 2^64-1, 2^64 with 4..13 bytes actually present; an endless size line; single-byte corruption of each framing byte with a symbolic replacement; unwind per harness",
    outside="inputs longer than the windows; production values of the 16 KiB line cap and the 10 KiB CONNECT cap (mechanism exercised with small limits); memory use of the http/url crates",
    stubs=["core::slice::memchr::memchr -> naive byte loop", "core::str::from_utf8 -> byte-wise validator", "io::Error::is_interrupted -> false"],
    assumptions=["refill buffer limit shrunk to 4 bytes (hook H3); the allocation bound is shown relative to that constant"],
)
DESCR += [(r"c05_._step", "one read from an arbitrary valid ChunkedReader state (symbolic buffer contents, cursor, eof flag; enumerated buffer length and remaining) against an enumerated continuation of the wire: invariant preserved, buffered bytes first and in order, poisoned after an error"),
          (r"c05_._parse_chunk_size_len", "parse_chunk_size on every byte string of the given length: no panic, result equals the reference on ASCII input"),
          (r"c05_._parse_chunk_size_1", "parse_chunk_size on every 16/17-digit hex string: exact value / overflow rejected"),
          (r"c05_._huge", "chunk declaring a huge size with only a few bytes present: buffer stays within the refill limit, body ends in an error"),
          (r"c05_._endless", "size line without end: rejected after a bounded amount of input")]

PROPS["C04"] = dict(
    filters={"quick": ["c04_q", "c04_qtwin"], "thorough": ["c04_"]},
    timeout_s={"quick": 600, "thorough": 2400},
    mem_gb=28, jobs={"thorough": 6},
    kernel=["buffers::{read_line,read_line_strict,read_line_ending,trim_byte,trim_byte_left,trim_byte_right,replace_byte}", "parse_response_head",
            "parse_response (Transfer-Encoding removal)", "http::{HeaderName::from_bytes,HeaderValue::from_bytes,HeaderMap::append,StatusCode::from_str} as called"],
    bounds="line readers on ALL byte strings of length 3..6 x byte limit x BufReader capacity 1..8 x segmentation; trim/replace on all strings of length 4/7; "
           "parse_response_head on enumerated concrete head layouts (see harness names) with every segmentation of the head",
    outside="repeated fields in wire order (a head with two Set-Cookie fields: 2400 s / 22 GB without a verdict); symbolic header names/values inside parse_response_head (a symbolic byte inside a line makes every later length symbolic for the symbolic executor; head contents are therefore enumerated, not symbolic); heads beyond 64 bytes",
    stubs=["core::slice::memchr::memchr -> naive byte loop", "core::str::from_utf8 -> byte-wise validator", "io::Error::is_interrupted -> false"],
    assumptions=[],
)
DESCR += [(r"c04_._read_line_strict", "read_line_strict on every byte string of length n: line ends at first CR LF, bounded buffering, exact hand-off position"),
          (r"c04_._read_line_n", "read_line on every byte string of length n: line ends at first LF, bounded buffering, exact hand-off position"),
          (r"c04_._trim", "trim_byte*/replace_byte on every byte string of length n against a direct specification")]

PROPS["C07"] = dict(
    filters={"quick": ["c07_q", "c07_qtwin"], "thorough": ["c07_"]},
    timeout_s={"quick": 600, "thorough": 2400},
    mem_gb=26, jobs={"quick": 8, "thorough": 8},
    kernel=["body::ChunkedWriter::{write,close,flush}", "PreparedRequest::{write_request,write_headers}", "RequestBuilder::try_prepare", "Body for Empty/Text/Bytes", "header_insert/header_insert_if_missing"],
    bounds="user-body write sequences of <=4 calls with lengths from {0,1,2,5,16,17} (symbolic bytes), directly and through a BufWriter of capacity 2; "
           "try_prepare/write_request on factory URLs for body kinds Empty/Text/Bytes/custom-chunked with symbolic body bytes of enumerated length",
    outside="param(s), basic_auth/bearer_auth, JSON/form serialisation, file bodies (url::form_urlencoded, base64, serde, file I/O: external crates / FFI); symbolic header names",
    stubs=["core::slice::memchr::memchr -> naive", "core::str::from_utf8 -> byte-wise validator", "io::Error::is_interrupted -> false"],
    assumptions=[],
)
DESCR += [(r"c07_._chunkw", "a user body issues the write calls named in the harness (symbolic bytes) on ChunkedWriter; the emitted bytes are decoded by a reference chunk decoder"),
          (r"c07_._prepare", "try_prepare + write_request for one body kind: framing headers vs octets actually written; request layout decoded back")]

PROPS["C10"] = dict(
    filters={"quick": ["c10_q", "c10_qtwin"], "thorough": ["c10_"]},
    timeout_s={"quick": 600, "thorough": 2400},
    kernel=["Body::{kind,write} for Empty/Text/Bytes/Multipart", "PreparedRequest::send (redirect loop: proxy re-evaluation, set_host per hop)"],
    bounds="bodies of 0..9 symbolic bytes written twice (what send() does on a 307/308 hop); hop loop as in C09",
    outside="file bodies (seek/FFI), JSON bodies (serde)",
    stubs=["core::slice::memchr::memchr -> naive", "core::str::from_utf8 -> byte-wise validator", "io::Error::is_interrupted -> false"],
    assumptions=[],
)
DESCR += [(r"c10_._replay", "kind()+write() twice on the same body object: identical octets and kind on both hops")]

PROPS["C08"] = dict(
    filters={"quick": ["c08_q", "c08_qtwin"], "thorough": ["c08_"]},
    timeout_s={"quick": 600, "thorough": 2400},
    mem_gb=26, jobs={"quick": 8, "thorough": 8},
    kernel=["BaseStream::connect up to and including the dial (hook H2): peer selection proxy vs origin, effective port, scheme", "url::Url::{host,port_or_known_default,scheme} on factory-built Urls"],
    level_note="PARTIAL: only the peer-selection clause of C08 is decided. The Host-field and request-target clauses are NOT decided: set_host (format! + HeaderMap::insert) and write_request (BufWriter + write!) did not finish symbolic execution in 600 s even on concrete inputs (DESIGN.md section 9).",
    bounds="hosts: domain of 1..3 symbolic bytes over {a,b,.,-}, one IPv4 and two IPv6 literals; ports: none / 81 / 8080 / 8443 (enumerated: the decimal text length must be concrete); "
           "path/query/fragment/userinfo of 0..2 symbolic bytes over small alphabets; direct, http-via-proxy, https-via-proxy",
    outside="Host field and request target (not encodable within reach, see level_note); URLs outside the factory grammar (IDNA, percent-encoding, opaque paths); https-via-proxy dial continues into the CONNECT exchange (C12)",
    stubs=["core::slice::memchr::memchr -> naive", "core::str::from_utf8 -> byte-wise validator", "io::Error::is_interrupted -> false", "Url built by the validated field mirror instead of Url::parse"],
    assumptions=["Url factory validated natively against Url::parse (tools/urlfactory)"],
)
DESCR += [(r"c08_._host", "set_host on a factory URL (symbolic host bytes): exactly one Host field equal to host[:port]"),
          (r"c08_._target", "write_request request line for a factory URL with symbolic path/query/fragment/userinfo bytes: origin-form vs absolute-form, no fragment, no userinfo"),
          (r"c08_._dial", "BaseStream::connect: the peer handed to the dial hook is the proxy if one applies, else the URL's host and effective port")]

PROPS["C03"] = dict(
    filters={"quick": ["c03_q", "c03_qtwin"], "thorough": ["c03_"]},
    timeout_s={"quick": 600, "thorough": 2400},
    mem_gb=20,
    kernel=["body_reader::parse_content_length", "is_content_length", "is_chunked", "BodyReader::new", "parse_response (bodiless statuses / HEAD)"],
    bounds="parse_content_length on ALL field values of 1..4 bytes and on all 19/20/21-digit values; BodyReader::new on enumerated concrete field lists (0..2 Content-Length fields, 0..2 Transfer-Encoding fields, see harness names); "
           "parse_response on header-less heads for HEAD and 1xx/204/304 with symbolic stray bytes after the head",
    outside="field values of 5..18 bytes; 'chunked' not last in the list (the property does not say what must happen); heads with header fields through parse_response (parse_response_head with fields costs > 10 min per layout, see C04)",
    stubs=["core::slice::memchr::memchr -> naive", "core::str::from_utf8 -> byte-wise validator", "io::Error::is_interrupted -> false"],
    assumptions=[],
)
DESCR += [(r"c03_._content_length_len", "parse_content_length on every header value of n bytes against a digit-by-digit reference"),
          (r"c03_._content_length_\d+digits", "parse_content_length on every n-digit value: exact or refused, never wrapped"),
          (r"c03_._decide", "BodyReader::new on a header map built from the named Content-Length / Transfer-Encoding fields: framing variant and length"),
          (r"c03_._bodiless", "parse_response for HEAD / 1xx / 204 / 304 with stray bytes after the head: body must read as empty")]
