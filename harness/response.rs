// C04 / C03 / C05: parse_response_head and parse_response on enumerated concrete heads.

include!("hmacro.rs");

mod verif_response {
    use super::*;
    use crate::verif::{Fault, Script, Seg};
    use http::Method;

    pub struct Field {
        pub name: HeaderName,
        pub value: &'static [u8],
    }

    pub enum Want {
        Err,
        Ok { status: u16, fields: &'static [Field] },
    }

    /// Parses `head ‖ tail` (tail = symbolic body bytes that must stay untouched in the reader) and
    /// compares status + header fields with what the layout means.
    pub fn head_case(head: &[u8], tail_len: usize, seg: Seg, cap: usize, max_headers: usize, want: &Want) {
        let mut wire = [0u8; crate::verif::WIRE_CAP];
        let mut n = 0;
        while n < head.len() {
            wire[n] = head[n];
            n += 1;
        }
        let mut tail = [0u8; 4];
        let mut i = 0;
        while i < tail_len {
            tail[i] = kani::any();
            wire[n] = tail[i];
            n += 1;
            i += 1;
        }
        let mut script = Script::new(wire, n, seg, Fault::Eof);
        let mut reader = BufReader::with_capacity(cap, script.handle());
        let r = parse_response_head(&mut reader, max_headers);
        match (&r, want) {
            (Ok((status, headers)), Want::Ok { status: ws, fields }) => {
                assert!(status.as_u16() == *ws, "C04: status code differs from the status line");
                assert!(headers.len() == fields.len(), "C04: header field lost or invented");
                // every expected (name, value) in wire order among the values of that name
                let mut k = 0;
                while k < fields.len() {
                    let f = &fields[k];
                    // index of this field among the earlier fields with the same name
                    let mut nth = 0;
                    let mut j = 0;
                    while j < k {
                        if fields[j].name == f.name {
                            nth += 1;
                        }
                        j += 1;
                    }
                    let mut it = headers.get_all(&f.name).iter();
                    let mut got = it.next();
                    let mut s = 0;
                    while s < nth {
                        got = it.next();
                        s += 1;
                    }
                    match got {
                        Some(v) => assert!(v.as_bytes() == f.value, "C04: header value differs from the wire / wrong order"),
                        None => assert!(false, "C04: header field missing"),
                    }
                    k += 1;
                }
                // hand-off: the reader is positioned exactly at the first body byte
                let mut b = [0u8; 4];
                let mut got = 0;
                while got < tail_len {
                    match reader.read(&mut b[got..tail_len]) {
                        Ok(0) => break,
                        Ok(m) => got += m,
                        Err(e) => {
                            std::mem::forget(e);
                            break;
                        }
                    }
                }
                assert!(got == tail_len, "C01: body bytes lost at the head/body boundary");
                let mut t = 0;
                while t < tail_len {
                    assert!(b[t] == tail[t], "C01: body bytes altered at the head/body boundary");
                    t += 1;
                }
            }
            (Err(_), Want::Err) => {}
            (Ok(_), Want::Err) => assert!(false, "C04/C05: malformed or over-limit head accepted"),
            (Err(_), Want::Ok { .. }) => assert!(false, "C04: valid head rejected"),
        }
        std::mem::forget(r);
        std::mem::forget(reader);
    }

    const NONE: &[Field] = &[];

    /// status-line variants without header fields: every listed (status line, expected code)
    fn status_table(rows: &[(&[u8], u16)], seg: Seg, cap: usize) {
        let mut i = 0;
        while i < rows.len() {
            let (line, code) = rows[i];
            let mut head = [0u8; 48];
            let mut n = 0;
            while n < line.len() {
                head[n] = line[n];
                n += 1;
            }
            head[n] = b'\r';
            head[n + 1] = b'\n';
            head[n + 2] = b'\r';
            head[n + 3] = b'\n';
            n += 4;
            if code == 0 {
                head_case(&head[..n], 1, seg, cap, 100, &Want::Err);
            } else {
                head_case(&head[..n], 1, seg, cap, 100, &Want::Ok { status: code, fields: NONE });
            }
            i += 1;
        }
        kani::cover!(true, "must: table walked");
    }

    verif_harness!(c04_q_head_status_1xx_2xx, 40, {
        status_table(&[(b"HTTP/1.1 100 Continue", 100), (b"HTTP/1.1 101 S", 101), (b"HTTP/1.1 199", 199), (b"HTTP/1.1 200 OK", 200), (b"HTTP/1.1 204 No Content", 204)], Seg::Whole, 64);
    });
    verif_harness!(c04_q_head_status_3xx_4xx, 40, {
        status_table(&[(b"HTTP/1.1 299 x", 299), (b"HTTP/1.0 300 ", 300), (b"HTTP/2 304 Not Modified", 304), (b"ICY 399 y", 399), (b"HTTP/1.1  404   Not  Found", 404)], Seg::Max(5), 7);
    });
    verif_harness!(c04_q_head_status_5xx_9xx, 40, {
        status_table(&[(b"HTTP/1.1 500 e", 500), (b"HTTP/1.1 599 e", 599), (b"X 600 e", 600), (b"HTTP/1.1 999 e", 999), (b"HTTP/1.1 418 I'm a teapot \x80\xff", 418)], Seg::OneByte, 3);
    });
    /// C19 (first clause): the head parser returns as soon as the blank line has arrived.  The wire
    /// holds the head and nothing else; a transport read issued beyond it is the event "the client
    /// waits for bytes the server has not sent" (recorded in end_hits, answered with WouldBlock).
    fn head_returns_at_blank_line(head: &[u8], seg: Seg, cap: usize) {
        let mut script = Script::from_slice(head, seg, Fault::WouldBlock);
        let mut reader = BufReader::with_capacity(cap, script.handle());
        let r = parse_response_head(&mut reader, 100);
        assert!(r.is_ok(), "C19/C04: complete head not accepted");
        assert!(script.end_hits == 0, "C19: the head parser asked for bytes beyond the blank line before returning");
        kani::cover!(true, "must: reached");
        std::mem::forget(r);
        std::mem::forget(reader);
    }
    verif_harness!(c19_q_head_returns_whole, 40, { head_returns_at_blank_line(b"HTTP/1.1 200 OK\r\n\r\n", Seg::Whole, 64) });
    verif_harness!(c19_q_head_returns_onebyte, 40, { head_returns_at_blank_line(b"HTTP/1.1 204 No Content\r\n\r\n", Seg::OneByte, 4) });
    verif_harness!(c19_t_head_returns_max3, 40, { head_returns_at_blank_line(b"HTTP/1.0 301 M\r\n\r\n", Seg::Max(3), 2) });

    verif_harness!(c04_q_head_limit_zero_fields, 40, {
        // a head with exactly max_headers fields is within the limit: 0 fields, limit 0
        head_case(b"HTTP/1.1 200 OK\r\n\r\n", 1, Seg::Max(4), 8, 0, &Want::Ok { status: 200, fields: NONE });
        kani::cover!(true, "must: reached");
    });
    verif_harness!(c04_q_head_status_invalid, 40, {
        status_table(&[(b"HTTP/1.1 099 x", 0), (b"HTTP/1.1 1000 x", 0), (b"HTTP/1.1 20 x", 0), (b"HTTP/1.1 abc", 0), (b"HTTP/1.1", 0), (b"", 0), (b"HTTP/1.1 2\xc30", 0)], Seg::Whole, 16);
    });

    // ---- layouts with header fields (each run costs minutes: HeaderMap::append and the value path
    // are expensive to execute symbolically even on concrete bytes)
    verif_harness_hn!(c04_t_head_onehdr_trim, 60, {
        head_case(
            b"HTTP/1.0 404 NF\r\nSERVER:   ab  \r\n\r\n",
            0,
            Seg::Max(6),
            8,
            1,
            &Want::Ok { status: 404, fields: &[Field { name: http::header::SERVER, value: b"ab" }] },
        );
        kani::cover!(true, "must: reached");
    });
    verif_harness_hn!(c04_t_head_folded_obstext, 40, {
        head_case(
            b"HTTP/1.1 200 OK\r\nserver: fo\x80\n ba\xff\r\n\r\n",
            0,
            Seg::Max(6),
            8,
            1,
            &Want::Ok { status: 200, fields: &[Field { name: http::header::SERVER, value: b"fo\x80  ba\xff" }] },
        );
        kani::cover!(true, "must: reached");
    });
    // "repeated fields all present in wire order" is NOT decided: a head with two Set-Cookie fields ran
    // 2400 s / 22 GB without a verdict (three fields: CBMC abort at 28 GB).  c04_t_head_max_headers_exceeded
    // (two fields, limit 1) and the single-field layouts are the largest heads that finish.
    verif_harness_hn!(c04_t_head_empty_value, 60, {
        head_case(
            b"HTTP/1.1 200 OK\r\nServer:\r\n\r\n",
            0,
            Seg::Whole,
            64,
            1,
            &Want::Ok { status: 200, fields: &[Field { name: http::header::SERVER, value: b"" }] },
        );
        kani::cover!(true, "must: reached");
    });
    verif_harness_hn!(c04_t_head_max_headers_exceeded, 60, {
        head_case(b"HTTP/1.1 200 OK\r\nServer: a\r\nServer: b\r\n\r\n", 0, Seg::Whole, 64, 1, &Want::Err);
        kani::cover!(true, "must: reached");
    });
    verif_harness_hn!(c04_t_head_no_colon, 40, {
        head_case(b"HTTP/1.1 200 OK\r\nServer a\r\n\r\n", 0, Seg::Whole, 64, 10, &Want::Err);
        kani::cover!(true, "must: reached");
    });
    verif_harness_hn!(c04_t_head_ctl_in_value, 40, {
        head_case(b"HTTP/1.1 200 OK\r\nServer: a\x01\r\n\r\n", 0, Seg::Whole, 64, 10, &Want::Err);
        kani::cover!(true, "must: reached");
    });
    verif_harness_hn!(c04_t_head_truncated, 40, {
        head_case(b"HTTP/1.1 200 OK\r\nServer: a\r\n", 0, Seg::Whole, 64, 10, &Want::Err);
        kani::cover!(true, "must: reached");
    });
    verif_harness!(c04_qtwin_head, 40, {
        status_table(&[(b"HTTP/1.1 200 OK", 200)], Seg::Whole, 64);
        assert!(false, "twin: must be reported as FAILURE");
    });

    // ------------------------------------------------------------------------------ C03 (bodiless)
    /// HEAD requests and 1xx / 204 / 304 responses have no body whatever follows the head: the body
    /// must read as empty, without error, and without touching the stray bytes.
    fn bodiless(method: Method, head: &[u8], stray: usize, expect_empty: bool) {
        let mut wire = [0u8; crate::verif::WIRE_CAP];
        let mut n = 0;
        while n < head.len() {
            wire[n] = head[n];
            n += 1;
        }
        let mut st = [0u8; 4];
        let mut i = 0;
        while i < stray {
            st[i] = kani::any();
            wire[n] = st[i];
            n += 1;
            i += 1;
        }
        let mut script = Script::new(wire, n, Seg::Whole, Fault::Eof);
        let url = crate::verif::make_url(&crate::verif::UrlSpec::simple(false, b"h"));
        let url2 = crate::verif::make_url(&crate::verif::UrlSpec::simple(false, b"h"));
        let settings = crate::request::verif_request::settings(crate::request::proxy::verif_proxy_settings(None, None, Vec::new()));
        let req = crate::request::verif_request::verif_prepared(method, url2, settings);
        let r = parse_response(BaseStream::Verif(script.handle()), &req, &url);
        match r {
            Err(e) => {
                std::mem::forget(e);
                assert!(false, "C03: valid response refused");
            }
            Ok(mut resp) => {
                let mut buf = [0u8; 8];
                let x = resp.read(&mut buf);
                match x {
                    Ok(k) => {
                        if expect_empty {
                            assert!(k == 0, "C03: a response that cannot have a body (HEAD / 1xx / 204 / 304) delivered body bytes");
                        } else {
                            assert!(k == stray, "C01: close-delimited body lost bytes");
                        }
                    }
                    Err(e) => {
                        std::mem::forget(e);
                        assert!(false, "C03: reading the body of a bodiless response failed");
                    }
                }
                kani::cover!(true, "must: body read");
                std::mem::forget(resp);
            }
        }
        std::mem::forget(req);
        std::mem::forget(url);
    }

    verif_harness!(c03_q_bodiless_head_200, 40, { bodiless(Method::HEAD, b"HTTP/1.1 200 OK\r\n\r\n", 3, true) });
    verif_harness!(c03_q_bodiless_get_204, 40, { bodiless(Method::GET, b"HTTP/1.1 204 No Content\r\n\r\n", 2, true) });
    verif_harness!(c03_q_bodiless_get_304, 40, { bodiless(Method::GET, b"HTTP/1.1 304 NM\r\n\r\n", 1, true) });
    verif_harness!(c03_q_bodiless_post_101, 40, { bodiless(Method::POST, b"HTTP/1.1 101 S\r\n\r\n", 3, true) });
    verif_harness!(c03_q_close_get_200, 40, { bodiless(Method::GET, b"HTTP/1.1 200 OK\r\n\r\n", 3, false) });
    verif_harness!(c03_t_bodiless_get_100, 40, { bodiless(Method::GET, b"HTTP/1.1 100 C\r\n\r\n", 2, true) });
    verif_harness!(c03_t_bodiless_get_199, 40, { bodiless(Method::GET, b"HTTP/1.1 199 x\r\n\r\n", 2, true) });
    verif_harness!(c03_t_close_get_205, 40, { bodiless(Method::GET, b"HTTP/1.1 205 RC\r\n\r\n", 2, false) });
    verif_harness!(c03_t_close_post_404, 40, { bodiless(Method::POST, b"HTTP/1.1 404 NF\r\n\r\n", 3, false) });
}

// C01, convenience readers (bytes / write_to / text_utf8): NOT decided.  Measured: ResponseReader::bytes()
// over a 3-byte length-delimited body (io::copy through its 8 KiB stack buffer, lengths not constant
// for the symbolic executor): 73 s of symbolic execution, then CBMC ran out of memory while building
// the SAT instance.  They are io::copy / read_to_end over the Read impl the C01 harnesses drive.

// ---------------------------------------------------------------------------------------------
// Model of parse_response for the redirect-loop harnesses (C09 / C10 / C08 per hop): the response of
// hop k has the status and Location presence scripted by the harness; its url is the hop URL it was
// given (that the real parse_response stores the hop URL is decided in c09_*_parse_response_url).
pub(crate) mod verif_hops {
    use super::*;
    pub static mut HOP: usize = 0;
    pub static mut HOP_STATUS: [u16; 6] = [200; 6];
    pub static mut HOP_HAS_LOCATION: [bool; 6] = [false; 6];
    pub static mut PARSE_CALLS: usize = 0;

    pub fn parse_response_model<B>(reader: BaseStream, request: &PreparedRequest<B>, url: &Url) -> Result<Response> {
        let k = unsafe { HOP };
        unsafe {
            PARSE_CALLS += 1;
            HOP = k + 1;
        }
        assert!(k < 6, "verif: more hops than scripted");
        let status = StatusCode::from_u16(unsafe { HOP_STATUS[k] }).unwrap();
        let mut headers = HeaderMap::new();
        if unsafe { HOP_HAS_LOCATION[k] } {
            headers.insert(http::header::LOCATION, HeaderValue::from_static("n"));
        }
        let body = BodyReader::empty(BufReader::with_capacity(8, reader));
        let cr = CompressedReader::new(&headers, request, body)?;
        let rr = ResponseReader::new(&headers, request, cr);
        Ok(Response {
            url: url.clone(),
            status,
            headers,
            reader: rr,
        })
    }

    pub fn response_url(r: &Response) -> &Url {
        &r.url
    }
}
