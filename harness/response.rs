// harnesses for module response (included under cfg(kani))
