// C11: ProxySettings::for_url, ProxySettingsBuilder, ProxySettings::from_env.

pub(crate) mod verif_proxy {
    use super::*;
    use crate::verif::{ascii_lower, make_url, HostSpec, UrlSpec};

    /// stub for str::to_lowercase (ASCII only; non-ASCII entries are outside the claim)
    pub fn to_lowercase_ascii(s: &str) -> String {
        let b = s.as_bytes();
        let mut v: Vec<u8> = Vec::with_capacity(b.len());
        let mut i = 0;
        while i < b.len() {
            v.push(ascii_lower(b[i]));
            i += 1;
        }
        unsafe { String::from_utf8_unchecked(v) }
    }

    fn eq_ci(a: &[u8], b: &[u8]) -> bool {
        if a.len() != b.len() {
            return false;
        }
        let mut i = 0;
        while i < a.len() {
            if ascii_lower(a[i]) != ascii_lower(b[i]) {
                return false;
            }
            i += 1;
        }
        true
    }

    #[derive(PartialEq, Eq, Clone, Copy)]
    enum Rel {
        Equal,
        Subdomain,
        Unrelated,
    }

    /// Reference relation between a host and one no-proxy entry (case-insensitive).
    fn relation(host: &[u8], e: &[u8]) -> Rel {
        if e.is_empty() {
            return Rel::Unrelated;
        }
        if eq_ci(host, e) {
            return Rel::Equal;
        }
        if host.len() > e.len() {
            let cut = host.len() - e.len();
            if host[cut - 1] == b'.' && eq_ci(&host[cut..], e) {
                return Rel::Subdomain;
            }
        }
        Rel::Unrelated
    }

    fn host_alpha(b: u8) -> bool {
        b == b'a' || b == b'b' || b == b'.' || b == b'-'
    }
    fn entry_alpha(b: u8) -> bool {
        b == b'a' || b == b'b' || b == b'A' || b == b'B' || b == b'.' || b == b'-'
    }
    fn is_upper(b: u8) -> bool {
        b >= b'A' && b <= b'Z'
    }

    fn any_host<const HL: usize>() -> [u8; HL] {
        let h: [u8; HL] = kani::any();
        let mut i = 0;
        while i < HL {
            kani::assume(host_alpha(h[i]));
            i += 1;
        }
        h
    }
    fn any_entry<const EL: usize>() -> [u8; EL] {
        let e: [u8; EL] = kani::any();
        let mut i = 0;
        while i < EL {
            kani::assume(entry_alpha(e[i]));
            i += 1;
        }
        // an entry given to the builder with a leading dot is not covered by the property text
        // (only NO_PROXY entries are said to lose a leading dot): oracle is silent, so exclude
        if EL > 0 {
            kani::assume(e[0] != b'.');
        }
        e
    }

    /// domain host of HL symbolic bytes, two entries of E1/E2 symbolic bytes (E2 == 99: one entry only,
    /// E1 == 99: no entry)
    fn for_url_domain<const HL: usize, const E1: usize, const E2: usize>(n_entries: usize, https: bool) {
        let host = any_host::<HL>();
        let url = make_url(&UrlSpec::simple(https, &host));
        let have_http: bool = kani::any();
        let have_https: bool = kani::any();
        let disabled: bool = kani::any();

        let p1 = make_url(&UrlSpec::simple(false, b"p"));
        let p2 = make_url(&UrlSpec::simple(true, b"q"));
        let e1 = any_entry::<E1>();
        let e2 = any_entry::<E2>();
        // fields set directly, as the constructors (builder, from_env) leave them: lower-case.
        // That the constructors normalise the case, and that the result matches hosts
        // case-insensitively, is decided through the real constructors in c11_*_builder_* and
        // c11_*_env_* (a for_url that relied on already-normalised entries would be correct too)
        let mut li = 0;
        while li < E1 {
            kani::assume(!is_upper(e1[li]));
            li += 1;
        }
        let mut lj = 0;
        while lj < E2 {
            kani::assume(!is_upper(e2[lj]));
            lj += 1;
        }
        let mut hosts: Vec<String> = Vec::with_capacity(2);
        if n_entries >= 1 {
            hosts.push(unsafe { String::from_utf8_unchecked(e1.to_vec()) });
        }
        if n_entries >= 2 {
            hosts.push(unsafe { String::from_utf8_unchecked(e2.to_vec()) });
        }
        let s = ProxySettings {
            http_proxy: if have_http { Some(p1) } else { std::mem::forget(p1); None },
            https_proxy: if have_https { Some(p2) } else { std::mem::forget(p2); None },
            disable_proxies: disabled,
            no_proxy_hosts: hosts,
        };

        let got = s.for_url(&url);

        let r1 = if n_entries >= 1 { relation(&host, &e1) } else { Rel::Unrelated };
        let r2 = if n_entries >= 2 { relation(&host, &e2) } else { Rel::Unrelated };
        let bypass = r1 != Rel::Unrelated || r2 != Rel::Unrelated;
        let configured = if https { s.https_proxy.as_ref() } else { s.http_proxy.as_ref() };
        let want_proxy = !disabled && !bypass && configured.is_some();
        if want_proxy {
            assert!(got.is_some(), "C11: proxy configured and host not on the no-proxy list, but no proxy chosen");
            assert!(
                std::ptr::eq(got.unwrap(), configured.unwrap()),
                "C11: proxy of the wrong scheme chosen"
            );
        } else {
            assert!(got.is_none(), "C11: proxy used although disabled / not configured / host is on the no-proxy list");
        }
        kani::cover!(want_proxy, "must: proxy chosen");
        kani::cover!(!disabled && configured.is_some() && bypass, "bypass by no-proxy entry");
        kani::cover!(r1 == Rel::Subdomain, "subdomain relation occurs");
        std::mem::forget(s);
        std::mem::forget(url);
    }

    macro_rules! for_url_shape {
        ($name:ident, $hl:expr, $e1:expr, $e2:expr, $n:expr) => {
            for_url_shape!($name, $hl, $e1, $e2, $n, false);
        };
        ($name:ident, $hl:expr, $e1:expr, $e2:expr, $n:expr, $https:expr) => {
            #[kani::proof]
            #[kani::unwind(12)]
            #[kani::stub(str::to_lowercase, to_lowercase_ascii)]
            fn $name() {
                for_url_domain::<$hl, $e1, $e2>($n, $https);
            }
        };
    }

    for_url_shape!(c11_q_forurl_h3_none, 3, 0, 0, 0);
    for_url_shape!(c11_q_forurl_h1_e1, 1, 1, 0, 1);
    for_url_shape!(c11_q_forurl_h3_e1, 3, 1, 0, 1);
    for_url_shape!(c11_q_forurl_h3_e0, 3, 0, 0, 1);
    for_url_shape!(c11_q_forurl_h3_e3, 3, 3, 0, 1);
    for_url_shape!(c11_q_forurl_h4_e2, 4, 2, 0, 1, true);
    for_url_shape!(c11_q_forurl_h5_e3, 5, 3, 0, 1);
    for_url_shape!(c11_q_forurl_h3_e1_e0, 3, 1, 0, 2, true);
    for_url_shape!(c11_q_forurl_h4_e1_e2, 4, 1, 2, 2);
    for_url_shape!(c11_t_forurl_h2_e1, 2, 1, 0, 1);
    for_url_shape!(c11_t_forurl_h2_e2, 2, 2, 0, 1);
    for_url_shape!(c11_t_forurl_h2_e3, 2, 3, 0, 1);
    for_url_shape!(c11_t_forurl_h4_e1, 4, 1, 0, 1);
    for_url_shape!(c11_t_forurl_h4_e3, 4, 3, 0, 1, true);
    for_url_shape!(c11_t_forurl_h4_e4, 4, 4, 0, 1);
    for_url_shape!(c11_t_forurl_h5_e1, 5, 1, 0, 1);
    for_url_shape!(c11_t_forurl_h5_e2, 5, 2, 0, 1, true);
    for_url_shape!(c11_t_forurl_h5_e4, 5, 4, 0, 1);
    for_url_shape!(c11_t_forurl_h5_e5, 5, 5, 0, 1);
    for_url_shape!(c11_t_forurl_h6_e3, 6, 3, 0, 1);
    for_url_shape!(c11_t_forurl_h5_e2_e3, 5, 2, 3, 2);
    for_url_shape!(c11_t_forurl_h5_e3_e1, 5, 3, 1, 2);

    #[kani::proof]
    #[kani::unwind(12)]
    #[kani::stub(str::to_lowercase, to_lowercase_ascii)]
    fn c11_qtwin_forurl() {
        for_url_domain::<3, 1, 0>(1, false);
        assert!(false, "twin: must be reported as FAILURE");
    }

    /// IP-literal hosts: exact entry bypasses, unrelated entry does not (suffix relation on an IP
    /// literal is outside the property text: oracle silent there).
    fn for_url_ip<const EL: usize>(v6: bool, https: bool) {
        let spec = UrlSpec {
            https,
            user: b"",
            pass: None,
            host: if v6 {
                HostSpec::V6([0, 0, 0, 0, 0, 0, 0, 1], b"::1")
            } else {
                HostSpec::V4([10, 0, 0, 1], b"10.0.0.1")
            },
            port: None,
            path: b"",
            query: None,
            fragment: None,
        };
        let url = make_url(&spec);
        let host_text: &[u8] = if v6 { b"[::1]" } else { b"10.0.0.1" };
        let e: [u8; EL] = kani::any();
        let mut i = 0;
        while i < EL {
            kani::assume(e[i] == b'0' || e[i] == b'1' || e[i] == b'.' || e[i] == b':' || e[i] == b']' || e[i] == b'[');
            i += 1;
        }
        if EL > 0 {
            kani::assume(e[0] != b'.');
        }
        let p1 = make_url(&UrlSpec::simple(false, b"p"));
        let p2 = make_url(&UrlSpec::simple(false, b"q"));
        let s = ProxySettings {
            http_proxy: Some(p1),
            https_proxy: Some(p2),
            disable_proxies: false,
            no_proxy_hosts: vec![unsafe { String::from_utf8_unchecked(e.to_vec()) }],
        };
        let got = s.for_url(&url);
        match relation(host_text, &e) {
            Rel::Equal => assert!(got.is_none(), "C11: IP host equal to a no-proxy entry still proxied"),
            Rel::Unrelated => assert!(got.is_some(), "C11: IP host bypasses the proxy for an unrelated no-proxy entry"),
            Rel::Subdomain => {}
        }
        kani::cover!(got.is_some(), "must: proxied");
        std::mem::forget(s);
        std::mem::forget(url);
    }

    macro_rules! for_url_ip_shape {
        ($name:ident, $el:expr, $v6:expr, $https:expr) => {
            #[kani::proof]
            #[kani::unwind(12)]
            #[kani::stub(str::to_lowercase, to_lowercase_ascii)]
            fn $name() {
                for_url_ip::<$el>($v6, $https);
            }
        };
    }
    for_url_ip_shape!(c11_q_forurl_ip4_e1, 1, false, false);
    for_url_ip_shape!(c11_q_forurl_ip4_e3, 3, false, true);
    for_url_ip_shape!(c11_t_forurl_ip4_e8, 8, false, false);
    for_url_ip_shape!(c11_q_forurl_ip6_e2, 2, true, false);
    for_url_ip_shape!(c11_t_forurl_ip6_e5, 5, true, true);

    /// The builder, judged only through for_url (no look at how entries are stored, so that e.g. a
    /// de-duplicating builder is not flagged): after adding two mixed-case entries, a host equal to
    /// either of them (lower case, as Url hosts always are) bypasses the proxy; an unrelated host
    /// gets the proxy of its scheme and none for the other scheme; proxies are enabled by default.
    fn builder_case<const E1: usize, const E2: usize>(which_http: bool, probe: u8) {
        let e1 = any_entry::<E1>();
        let e2 = any_entry::<E2>();
        let p1 = make_url(&UrlSpec::simple(false, b"p"));
        let b = ProxySettings::builder();
        let b = if which_http { b.http_proxy(p1) } else { b.https_proxy(Some(p1)) };
        let s = b
            .add_no_proxy_host(unsafe { std::str::from_utf8_unchecked(&e1) })
            .add_no_proxy_host(unsafe { String::from_utf8_unchecked(e2.to_vec()) })
            .build();
        let mut h1 = [0u8; E1];
        let mut i = 0;
        while i < E1 {
            h1[i] = ascii_lower(e1[i]);
            i += 1;
        }
        let mut h2 = [0u8; E2];
        let mut j = 0;
        while j < E2 {
            h2[j] = ascii_lower(e2[j]);
            j += 1;
        }
        let https = !which_http;
        // one for_url query per harness (the builder's struct moves plus several queries exceed
        // 24 GB): probe 0 = host equal to the first entry, 1 = to the second, 2 = unrelated host,
        // 3 = unrelated host with the other scheme
        match probe {
            0 => {
                let u1 = make_url(&UrlSpec::simple(https, &h1));
                assert!(s.for_url(&u1).is_none(), "C11: host equal to a no-proxy entry given to the builder is still proxied");
                std::mem::forget(u1);
            }
            1 => {
                let u2 = make_url(&UrlSpec::simple(https, &h2));
                assert!(s.for_url(&u2).is_none(), "C11: host equal to a later no-proxy entry given to the builder is still proxied");
                std::mem::forget(u2);
            }
            4 | 5 => {
                // cheap variant: judge the stored list with the reference relation instead of
                // calling for_url (for_url on such lists is decided by the c11_*_forurl_* family,
                // the letter-case composition by c11_*_builder_then_forurl_*): some stored entry
                // must cover a host equal to the entry that was added
                let h: &[u8] = if probe == 4 { &h1 } else { &h2 };
                let mut covered = false;
                let mut k = 0;
                while k < s.no_proxy_hosts.len() && k < 3 {
                    if relation(h, s.no_proxy_hosts[k].as_bytes()) != Rel::Unrelated {
                        covered = true;
                    }
                    k += 1;
                }
                assert!(covered || h.is_empty(), "C11: a no-proxy entry given to the builder is not honoured (lost or altered)");
            }
            2 => {
                let other = make_url(&UrlSpec::simple(https, b"zz"));
                assert!(s.for_url(&other).is_some(), "C11: unrelated host bypasses the proxy / builder stored the proxy under the wrong scheme or disabled proxies");
                std::mem::forget(other);
            }
            _ => {
                let other_scheme = make_url(&UrlSpec::simple(!https, b"zz"));
                assert!(s.for_url(&other_scheme).is_none(), "C11: proxy used for a scheme it was not configured for");
                std::mem::forget(other_scheme);
            }
        }
        kani::cover!(true, "must: reached");
        std::mem::forget(s);
    }

    /// composition through the real API: an entry given to the builder in mixed case must make a
    /// host equal to it (lower case, as Url hosts always are) bypass the proxy
    fn builder_then_for_url<const E1: usize>() {
        let e1 = any_entry::<E1>();
        let mut host = [0u8; E1];
        let mut hi = 0;
        while hi < E1 {
            host[hi] = ascii_lower(e1[hi]);
            hi += 1;
        }
        let p1 = make_url(&UrlSpec::simple(false, b"p"));
        let s = ProxySettings::builder()
            .http_proxy(p1)
            .add_no_proxy_host(unsafe { std::str::from_utf8_unchecked(&e1) })
            .build();
        let url = make_url(&UrlSpec::simple(false, &host));
        assert!(s.for_url(&url).is_none(), "C11: host equal to a no-proxy entry given in another letter case is still proxied");
        let other = make_url(&UrlSpec::simple(false, b"zz"));
        assert!(s.for_url(&other).is_some(), "C11: unrelated host bypasses the proxy");
        kani::cover!(true, "must: reached");
        std::mem::forget(url);
        std::mem::forget(other);
        std::mem::forget(s);
    }
    #[kani::proof]
    #[kani::unwind(12)]
    #[kani::stub(str::to_lowercase, to_lowercase_ascii)]
    fn c11_q_builder_then_forurl_e1() {
        builder_then_for_url::<1>();
    }
    // (builder -> for_url composition with a 2- or 3-byte entry ran out of memory at 24 GB; the 1-byte
    // variant above is the one that finishes)

    macro_rules! builder_shape {
        ($name:ident, $e1:expr, $e2:expr, $http:expr, $probe:expr) => {
            #[kani::proof]
            #[kani::unwind(12)]
            #[kani::stub(str::to_lowercase, to_lowercase_ascii)]
            fn $name() {
                builder_case::<$e1, $e2>($http, $probe);
            }
        };
    }
    builder_shape!(c11_q_builder_e1_e2_second_stored, 1, 2, true, 5);
    builder_shape!(c11_q_builder_e2_e3_first_stored, 2, 3, false, 4);
    builder_shape!(c11_q_builder_e2_e3_second_stored, 2, 3, true, 5);
    builder_shape!(c11_t_builder_e1_e2_second, 1, 2, true, 1);
    builder_shape!(c11_t_builder_e2_e1_first_stored_https, 2, 1, false, 4);
    builder_shape!(c11_t_builder_e1_e1_unrelated, 1, 1, true, 2);
    builder_shape!(c11_t_builder_e1_e0_other_scheme, 1, 0, false, 3);
    builder_shape!(c11_t_builder_e3_e3_second, 3, 3, true, 1);
    builder_shape!(c11_t_builder_e2_e3_first, 2, 3, false, 0);
}

/// Direct construction for harnesses in other modules (the builder moves whole Url values around,
/// which is expensive for the symbolic executor; it is decided on its own in c11_*_builder_*).
pub(crate) fn verif_proxy_settings(http: Option<Url>, https: Option<Url>, no_proxy: Vec<String>) -> ProxySettings {
    ProxySettings {
        http_proxy: http,
        https_proxy: https,
        disable_proxies: false,
        no_proxy_hosts: no_proxy,
    }
}

// C11, environment clause (ProxySettings::from_env): NOT decided.  Measured: with std::env::var and
// Url::parse stubbed by table models, a single concrete case (NO_PROXY="A", all else unset) needs
// > 300 s of symbolic execution and > 10 min in total at the minimal unwinding bound (12, forced by
// `name.to_ascii_lowercase()` on "https_proxy"); the heap-allocated Strings that from_env splits, trims
// and compares are not constant for CBMC's symbolic executor, so every memcmp / memchr / trim loop is
// unwound to the bound at every call.  See DESIGN.md section 9.
