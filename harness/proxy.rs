// harnesses for module proxy (included under cfg(kani))
