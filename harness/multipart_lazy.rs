// harnesses for module multipart_lazy (included under cfg(kani))
