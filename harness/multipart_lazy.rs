// C15: NOT decided (see DESIGN.md section 9 and MANIFEST not_applicable).  Measured:
//  * MultipartBuilder::build / PreparedFields::from_fields, even for the EMPTY form with gen_boundary
//    stubbed, do not get through `format!("\r\n--{}", ..)`: symbolic execution stalls in
//    core::fmt::write (> 300 s, no result);
//  * PreparedFields::read on a directly constructed value (plan B) does not finish either: the part
//    streams are `Box<dyn Read>` stored in a heap Vec, the virtual call is resolved by CBMC to a
//    case split whose lengths are not constant, and `Cursor::read_vectored`/copy loops are unwound
//    to the bound (> 300 s for one stream of 2 bytes).
