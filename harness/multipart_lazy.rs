// C15 (plan B): the lazy multipart body's own state machine, without going through core::fmt.

include!("hmacro.rs");

mod verif_mp {
    use super::*;

    pub fn fixed_boundary() -> String {
        let mut s = String::with_capacity(16);
        s.push_str("AAAAAAAAAAAAAAAA");
        s
    }

    /// PreparedFields built directly (text block, up to two streams with their header blocks, end
    /// boundary: all symbolic bytes of enumerated lengths), then read with caller buffers of `rd`
    /// bytes until Ok(0): the output is text ‖ (header ‖ data of each stream, last added first) ‖
    /// end boundary, each exactly once, then Ok(0) for ever.
    fn read_all<const T: usize, const H1: usize, const D1: usize, const H2: usize, const D2: usize, const E: usize>(nstreams: usize, rd: usize) {
        let text: [u8; T] = kani::any();
        let h1: [u8; H1] = kani::any();
        let d1: [u8; D1] = kani::any();
        let h2: [u8; H2] = kani::any();
        let d2: [u8; D2] = kani::any();
        let e: [u8; E] = kani::any();
        let mut ee = [0u8; E];
        let mut i = 0;
        while i < E {
            kani::assume(e[i] < 0x80);
            ee[i] = e[i];
            i += 1;
        }
        let mut streams: Vec<PreparedField> = Vec::with_capacity(2);
        if nstreams >= 1 {
            streams.push(PreparedField {
                header: Cursor::new(h1.to_vec()),
                stream: Box::new(Cursor::new(&d1[..])),
            });
        }
        if nstreams >= 2 {
            streams.push(PreparedField {
                header: Cursor::new(h2.to_vec()),
                stream: Box::new(Cursor::new(&d2[..])),
            });
        }
        let mut pf = PreparedFields {
            text_data: Cursor::new(text.to_vec()),
            streams,
            end_boundary: Cursor::new(unsafe { String::from_utf8_unchecked(ee.to_vec()) }),
            content_len: None,
        };
        // expected image
        let mut want = [0u8; 48];
        let mut n = 0;
        let mut put = |b: &[u8], want: &mut [u8; 48], n: &mut usize| {
            let mut k = 0;
            while k < b.len() {
                want[*n] = b[k];
                *n += 1;
                k += 1;
            }
        };
        put(&text, &mut want, &mut n);
        if nstreams >= 2 {
            put(&h2, &mut want, &mut n);
            put(&d2, &mut want, &mut n);
        }
        if nstreams >= 1 {
            put(&h1, &mut want, &mut n);
            put(&d1, &mut want, &mut n);
        }
        put(&ee, &mut want, &mut n);

        let mut got = 0;
        let mut buf = [0u8; 8];
        let mut reads = 0;
        let mut eof = false;
        while reads < n + 3 {
            match pf.read(&mut buf[..rd]) {
                Ok(0) => {
                    eof = true;
                }
                Ok(m) => {
                    assert!(!eof, "C15: multipart body produced data after its end");
                    let mut j = 0;
                    while j < m {
                        assert!(got + j < n && buf[j] == want[got + j], "C15: multipart body bytes differ from the prepared parts (lost, duplicated or reordered bytes)");
                        j += 1;
                    }
                    got += m;
                }
                Err(e) => {
                    std::mem::forget(e);
                    assert!(false, "C15: reading the multipart body failed");
                }
            }
            reads += 1;
        }
        assert!(eof && got == n, "C15: multipart body truncated");
        kani::cover!(true, "must: body read");
        std::mem::forget(pf);
    }

    verif_harness!(c15_q_read_text3_rd1, 60, { read_all::<3, 0, 0, 0, 0, 4>(0, 1) });
    verif_harness!(c15_q_read_one_stream_rd2, 60, { read_all::<0, 3, 2, 0, 0, 4>(1, 2) });
    verif_harness!(c15_q_read_text_two_streams_rd3, 60, { read_all::<2, 2, 3, 2, 1, 3>(2, 3) });
    verif_harness!(c15_q_read_empty_stream_rd8, 60, { read_all::<1, 2, 0, 2, 2, 2>(2, 8) });
    verif_harness!(c15_t_read_text_two_streams_rd1, 60, { read_all::<2, 2, 3, 2, 1, 3>(2, 1) });
    verif_harness!(c15_t_read_text_two_streams_rd7, 60, { read_all::<3, 3, 5, 2, 0, 4>(2, 7) });
    verif_harness!(c15_t_read_nothing, 60, { read_all::<0, 0, 0, 0, 0, 0>(0, 2) });
    verif_harness!(c15_qtwin_read, 60, {
        read_all::<0, 3, 2, 0, 0, 4>(1, 2);
        assert!(false, "twin: must be reported as FAILURE");
    });

    /// boundary() on what from_fields stores for a form with `B` as boundary: never panics and
    /// returns B.  The empty form goes through the real from_fields (gen_boundary stubbed).
    #[kani::proof]
    #[kani::unwind(40)]
    #[kani::stub(crate::multipart_crate::gen_boundary, fixed_boundary)]
    fn c15_q_empty_form_boundary() {
        let mut fields: Vec<Field> = Vec::new();
        let r = PreparedFields::from_fields(&mut fields);
        match r {
            Ok(pf) => {
                let b = pf.boundary();
                assert!(b.len() == 16, "C15: boundary of an empty form is not the generated boundary");
                kani::cover!(true, "must: boundary taken");
                std::mem::forget(pf);
            }
            Err(_) => assert!(false, "C15: preparing an empty form failed"),
        }
    }
}
