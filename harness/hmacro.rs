// Declares a proof harness with the standard std-kernel models applied (see crate::verif for what
// each stub replaces and why).  Textually included at the top of every harness file.
macro_rules! verif_harness {
    ($name:ident, $unwind:expr, $body:block) => {
        #[kani::proof]
        #[kani::unwind($unwind)]
        #[kani::stub(core::slice::memchr::memchr, crate::verif::memchr_naive)]
        #[kani::stub(core::str::from_utf8, crate::verif::from_utf8_model)]
        #[kani::stub(std::io::Error::is_interrupted, crate::verif::never_interrupted)]
        fn $name() $body
    };
}

// Same, plus the HeaderName::from_bytes model (only for harnesses whose heads use the modelled names).
macro_rules! verif_harness_hn {
    ($name:ident, $unwind:expr, $body:block) => {
        #[kani::proof]
        #[kani::unwind($unwind)]
        #[kani::stub(core::slice::memchr::memchr, crate::verif::memchr_naive)]
        #[kani::stub(core::str::from_utf8, crate::verif::from_utf8_model)]
        #[kani::stub(std::io::Error::is_interrupted, crate::verif::never_interrupted)]
        #[kani::stub(http::header::HeaderName::from_bytes, crate::verif::header_name_model)]
        fn $name() $body
    };
}
