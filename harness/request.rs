// harnesses for module request (included under cfg(kani))
