// C08 (peer, request target, Host), C07 (request layout / framing headers), C09/C10 (redirect loop).

include!("hmacro.rs");

pub(crate) mod verif_request {
    use super::*;
    use crate::verif::{make_url, DialHost, HostSpec, UrlSpec};

    pub fn settings(proxy: proxy::ProxySettings) -> BaseSettings {
        BaseSettings {
            headers: HeaderMap::new(),
            root_certificates: crate::skip_debug::SkipDebug(Vec::new()),
            max_headers: 100,
            max_redirections: 5,
            follow_redirects: true,
            connect_timeout: std::time::Duration::from_secs(30),
            read_timeout: std::time::Duration::from_secs(30),
            timeout: None,
            proxy_settings: proxy,
            accept_invalid_certs: false,
            accept_invalid_hostnames: false,
            #[cfg(feature = "charsets")]
            default_charset: None,
            #[cfg(feature = "flate2")]
            allow_compression: true,
        }
    }

    fn push(v: &mut [u8; 64], n: &mut usize, b: &[u8]) {
        let mut i = 0;
        while i < b.len() {
            v[*n] = b[i];
            *n += 1;
            i += 1;
        }
    }

    /// out[..n] == want[..n] without a loop (n <= 64): the unwinding bound of these harnesses has to
    /// stay small because std/http loops whose trip count is not constant for the symbolic
    /// executor are unwound to the bound at every call.
    fn same_prefix(out: &[u8], want: &[u8; 64], n: usize) -> bool {
        macro_rules! chk {
            ($($i:expr),*) => { $( if $i < n && (out.len() <= $i || out[$i] != want[$i]) { return false; } )* };
        }
        chk!(0, 1, 2, 3, 4, 5, 6, 7, 8, 9, 10, 11, 12, 13, 14, 15, 16, 17, 18, 19, 20, 21, 22, 23, 24, 25, 26, 27, 28, 29, 30, 31);
        chk!(32, 33, 34, 35, 36, 37, 38, 39, 40, 41, 42, 43, 44, 45, 46, 47, 48, 49, 50, 51, 52, 53, 54, 55, 56, 57, 58, 59, 60, 61, 62, 63);
        true
    }

    fn host_text(spec: &UrlSpec, out: &mut [u8; 64], n: &mut usize) {
        match spec.host {
            HostSpec::Domain(d) => push(out, n, d),
            HostSpec::V4(_, t) => push(out, n, t),
            HostSpec::V6(_, t) => {
                push(out, n, b"[");
                push(out, n, t);
                push(out, n, b"]");
            }
        }
    }

    /// constructor for harnesses in other modules (PreparedRequest's fields are private to `request`)
    pub(crate) fn verif_prepared(method: Method, url: Url, st: BaseSettings) -> PreparedRequest<body::Empty> {
        PreparedRequest {
            url,
            method,
            body: body::Empty,
            headers: HeaderMap::new(),
            base_settings: Arc::new(st),
        }
    }

    // NOTE (measured, see DESIGN.md section 9): set_host (format! + HeaderMap::insert) and write_request
    // (BufWriter + write!) do not finish symbolic execution within 600 s even on fully concrete
    // inputs: lengths coming out of core::fmt and the heap-allocated index table of HeaderMap are not
    // constant for CBMC's symbolic executor, so every retry/probe loop is unwound to the bound.
    // The Host-field and request-target clauses of C08 are therefore not decided; the peer-selection
    // clause is (below).

    // ---------------------------------------------------------------------------- dial target
    fn domain_eq(h: &DialHost, want: &[u8]) -> bool {
        match h {
            DialHost::Domain { bytes, len } => {
                if *len != want.len() {
                    return false;
                }
                let mut i = 0;
                while i < want.len() {
                    if bytes[i] != want[i] {
                        return false;
                    }
                    i += 1;
                }
                true
            }
            _ => false,
        }
    }

    /// BaseStream::connect for an http URL: the peer handed to the dial hook is the proxy's
    /// host:port (scheme default applied) when a proxy is given, else the URL's own.
    pub fn dial_case(spec: &UrlSpec, proxy_spec: Option<&UrlSpec>) {
        let url = make_url(spec);
        let proxy = match proxy_spec {
            Some(p) => Some(make_url(p)),
            None => None,
        };
        let st = settings(proxy::verif_proxy_settings(None, None, Vec::new()));
        let info = ConnectInfo {
            url: &url,
            proxy: proxy.as_ref(),
            base_settings: &st,
            deadline: None,
        };
        unsafe {
            crate::verif::DIAL_COUNT = 0;
        }
        let r = BaseStream::connect(&info);
        assert!(r.is_ok(), "C08: connect failed although the dial succeeded");
        let n = unsafe { crate::verif::DIAL_COUNT };
        assert!(n == 1, "C08: not exactly one connection dialled");
        let rec = unsafe { crate::verif::DIAL_LOG[0] };
        let peer = match proxy_spec {
            Some(p) => p,
            None => spec,
        };
        let want_port = match peer.port {
            Some((v, _)) => v,
            None => {
                if peer.https {
                    443
                } else {
                    80
                }
            }
        };
        assert!(rec.port == want_port, "C08: dialled the wrong port (proxy vs origin / scheme default)");
        assert!(rec.https == peer.https, "C08: dialled with the wrong scheme");
        match peer.host {
            HostSpec::Domain(d) => assert!(domain_eq(&rec.host, d), "C08: dialled the wrong host (proxy vs origin)"),
            HostSpec::V4(a, _) => assert!(rec.host == DialHost::V4(a), "C08: dialled the wrong IPv4 address"),
            HostSpec::V6(a, _) => assert!(rec.host == DialHost::V6(a), "C08: dialled the wrong IPv6 address"),
        }
        kani::cover!(true, "must: dialled");
        std::mem::forget(r);
        std::mem::forget(st);
        std::mem::forget(url);
        std::mem::forget(proxy);
    }

    fn sym_bytes<const N: usize>(alpha: &[u8]) -> [u8; N] {
        let v: [u8; N] = kani::any();
        let mut i = 0;
        while i < N {
            let mut ok = false;
            let mut k = 0;
            while k < alpha.len() {
                if v[i] == alpha[k] {
                    ok = true;
                }
                k += 1;
            }
            kani::assume(ok);
            i += 1;
        }
        v
    }

    verif_harness!(c08_q_dial_direct_domain_default_port, 20, {
        let h: [u8; 3] = sym_bytes(b"ab.-");
        dial_case(&UrlSpec::simple(false, &h), None);
    });
    verif_harness!(c08_q_dial_direct_domain_explicit_port, 20, {
        let h: [u8; 2] = sym_bytes(b"ab.");
        let port: u16 = kani::any();
        kani::assume(port >= 1000 && port <= 9999);
        let mut s = UrlSpec::simple(false, &h);
        // the port *value* is symbolic; its decimal text only has to have the right length for the
        // factory (connect() reads the numeric field, never the text)
        s.port = Some((port, b"8080"));
        dial_case(&s, None);
    });
    verif_harness!(c08_q_dial_direct_v6, 20, {
        let mut s = UrlSpec::simple(false, b"");
        s.host = HostSpec::V6([0x2001, 0xdb8, 0, 0, 0, 0, 0, 1], b"2001:db8::1");
        dial_case(&s, None);
    });
    verif_harness!(c08_q_dial_http_via_http_proxy, 20, {
        let h: [u8; 2] = sym_bytes(b"ab.");
        let p: [u8; 2] = sym_bytes(b"pq");
        let mut ps = UrlSpec::simple(false, &p);
        ps.port = Some((3128, b"3128"));
        dial_case(&UrlSpec::simple(false, &h), Some(&ps));
    });
    verif_harness!(c08_q_dial_http_via_https_proxy_default_port, 20, {
        let p: [u8; 2] = sym_bytes(b"pq");
        let mut us = UrlSpec::simple(false, b"origin");
        us.port = Some((8080, b"8080"));
        dial_case(&us, Some(&UrlSpec::simple(true, &p)));
    });
    verif_harness!(c08_t_dial_direct_v4_https_is_not_tunnel, 20, {
        let mut s = UrlSpec::simple(false, b"");
        s.host = HostSpec::V4([10, 0, 0, 1], b"10.0.0.1");
        s.port = Some((81, b"81"));
        dial_case(&s, None);
    });
    verif_harness!(c08_qtwin_dial, 20, {
        dial_case(&UrlSpec::simple(false, b"ab"), None);
        assert!(false, "twin: must be reported as FAILURE");
    });
}

// ------------------------------------------------------------------------------- redirect loop
// The loop of PreparedRequest::<Empty>::send with the per-hop I/O replaced by models:
//   write_request -> no-op (its output is not decidable, see above)        [sibling-method stub]
//   parse_response -> scripted status / Location (verif_hops)              [generic fn stub]
//   set_host -> no-op (format! + HeaderMap::insert are out of reach)      [fn stub]
//   Url::parse -> the next scripted hop URL, or an error                   [fn stub]
// Real: the loop itself (redirect set, counter, follow_redirects, Location lookup, error mapping),
// ProxySettings::for_url per hop, BaseStream::connect (peer selection) per hop.
impl<B: Body> PreparedRequest<B> {
    fn verif_write_request_noop<W>(&mut self, _writer: W, _url: &Url, _proxy: Option<&Url>) -> Result
    where
        W: Write,
    {
        Ok(())
    }
}

pub(crate) mod verif_loop {
    use super::*;
    use crate::parsing::response::verif_hops::*;
    use crate::verif::{make_url, DialHost, UrlSpec};

    pub static mut NEXT_HOST: [u8; 6] = [b'a', b'b', b'c', b'd', b'e', b'f'];
    pub static mut NEXT_FAILS: [bool; 6] = [false; 6];
    pub static mut NEXT_HTTPS: [bool; 6] = [false, true, false, true, false, true];
    pub static mut JOIN_CALLS: usize = 0;

    pub fn set_host_noop(_headers: &mut HeaderMap, _url: &Url) -> Result {
        Ok(())
    }

    /// Url::parse model: Location of hop k resolves to http://<NEXT_HOST[k]>/ (or is unusable)
    pub fn url_parse_next(_input: &str) -> std::result::Result<Url, url::ParseError> {
        let k = unsafe { HOP };
        // HOP was already advanced by parse_response_model: the Location belongs to hop k-1
        let i = k - 1;
        if unsafe { NEXT_FAILS[i] } {
            return Err(url::ParseError::EmptyHost);
        }
        let h = [unsafe { NEXT_HOST[i] }];
        Ok(make_url(&UrlSpec::simple(unsafe { NEXT_HTTPS[i] }, &h)))
    }

    fn dialled_host(k: usize) -> u8 {
        match unsafe { crate::verif::DIAL_LOG[k].host } {
            DialHost::Domain { bytes, len } => {
                if len == 1 {
                    bytes[0]
                } else {
                    0
                }
            }
            _ => 0,
        }
    }

    /// chain of up to 4 hops; statuses symbolic over {200, 300..308, 404}; only an http proxy 'p' is
    /// configured: http hops must be dialled at the proxy, https hops (2nd, 4th, ..) at their own host.
    pub fn run(max_redirections: u32, follow: bool, hops: usize) {
        let mut i = 0;
        while i < hops {
            let s: u16 = kani::any();
            kani::assume(s == 200 || s == 301 || s == 302 || s == 303 || s == 304 || s == 307 || s == 308 || s == 404 || s == 300 || s == 305);
            unsafe {
                HOP_STATUS[i] = s;
                HOP_HAS_LOCATION[i] = kani::any();
            }
            i += 1;
        }
        // last scripted hop always terminates the chain
        unsafe {
            HOP_STATUS[hops - 1] = 200;
            HOP = 0;
            PARSE_CALLS = 0;
            crate::verif::DIAL_COUNT = 0;
            NEXT_HOST = [b'a', b'b', b'c', b'd', b'e', b'f'];
        }
        let proxy = make_url(&UrlSpec::simple(false, b"p"));
        let mut st = verif_request::settings(proxy::verif_proxy_settings(Some(proxy), None, Vec::new()));
        st.max_redirections = max_redirections;
        st.follow_redirects = follow;
        let start = make_url(&UrlSpec::simple(false, b"s"));
        let mut req = verif_request::verif_prepared(Method::GET, start, st);
        let r = req.send();

        let sent = unsafe { PARSE_CALLS };
        let dials = unsafe { crate::verif::DIAL_COUNT };
        assert!(dials == sent, "C09: connections and requests differ");
        assert!(sent as u64 <= max_redirections as u64 + 1, "C09: more than max_redirections + 1 requests sent");
        if !follow {
            assert!(sent == 1, "C09: redirect followed although following is disabled");
            assert!(r.is_ok(), "C09: 3xx response not returned when following is disabled");
        }
        // replay the chain with the reference rules
        let mut k = 0;
        let mut redirs: u32 = 0;
        let mut want_err = false;
        loop {
            let s = unsafe { HOP_STATUS[k] };
            let is_redirect = s == 301 || s == 302 || s == 303 || s == 307 || s == 308;
            if !follow || !is_redirect {
                break;
            }
            redirs += 1;
            if redirs > max_redirections {
                want_err = true;
                break;
            }
            if !unsafe { HOP_HAS_LOCATION[k] } {
                want_err = true;
                break;
            }
            k += 1;
        }
        assert!(sent == k + 1, "C09: wrong number of requests for this chain (followed a non-redirect status, or stopped early)");
        match &r {
            Ok(resp) => {
                assert!(!want_err, "C09: chain that must fail (too many redirections / missing Location) returned a response");
                assert!(resp.status().as_u16() == unsafe { HOP_STATUS[k] }, "C09: returned response is not the last one fetched");
                // the response reports the URL it was fetched from
                let want_host: &[u8] = if k == 0 { b"s" } else { std::slice::from_ref(unsafe { &NEXT_HOST[k - 1] }) };
                assert!(response_url(resp).host_str().map(|h| h.as_bytes()) == Some(want_host), "C09: response does not report the URL it was fetched from");
            }
            Err(_) => assert!(want_err, "C09: valid chain failed"),
        }
        // C08 / C10 per hop: the peer is re-evaluated for every hop URL: http hops go to the proxy
        // 'p' (port 80), https hops to their own host (port 443)
        let mut h = 0;
        while h < sent {
            let host = if h == 0 { b's' } else { unsafe { NEXT_HOST[h - 1] } };
            let https = if h == 0 { false } else { unsafe { NEXT_HTTPS[h - 1] } };
            let want = if https { host } else { b'p' };
            assert!(dialled_host(h) == want, "C10/C08: hop sent to the wrong peer (proxy choice not re-evaluated for the hop's URL)");
            let rec = unsafe { crate::verif::DIAL_LOG[h] };
            assert!(rec.https == https && rec.port == if https { 443 } else { 80 }, "C10/C08: hop dialled with the wrong scheme / port");
            h += 1;
        }
        kani::cover!(sent >= 3, "three requests");
        kani::cover!(want_err, "error chain");
        kani::cover!(true, "must: loop ran");
        std::mem::forget(r);
        std::mem::forget(req);
    }

    macro_rules! loop_harness {
        ($name:ident, $max:expr, $follow:expr, $hops:expr) => {
            #[kani::proof]
            #[kani::unwind(5)]
            #[kani::stub(crate::parsing::response::parse_response, crate::parsing::response::verif_hops::parse_response_model)]
            #[kani::stub(crate::request::PreparedRequest::write_request, crate::request::PreparedRequest::verif_write_request_noop)]
            #[kani::stub(crate::request::set_host, set_host_noop)]
            #[kani::stub(url::Url::parse, url_parse_next)]
            #[kani::stub(str::to_lowercase, crate::request::proxy::verif_proxy::to_lowercase_ascii)]
            fn $name() {
                run($max, $follow, $hops);
            }
        };
    }
    loop_harness!(c09_q_loop_max0, 0, true, 2);
    loop_harness!(c09_q_loop_max1, 1, true, 3);
    loop_harness!(c09_q_loop_max2, 2, true, 4);
    loop_harness!(c09_q_loop_nofollow, 5, false, 2);
    loop_harness!(c09_t_loop_max3, 3, true, 5);
}
