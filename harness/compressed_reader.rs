// harnesses for module compressed_reader (included under cfg(kani))
