// C17 (ordering clause): happy::intertwine + the two family filters that feed it in happy::connect.

mod verif_happy {
    use super::*;
    
    // Reference: alternate v6/v4 starting with v6, keep resolver order within a family.
    fn reference(is6: &[bool], n: usize, out: &mut [usize; 6]) -> usize {
        let mut six = [0usize; 6];
        let mut four = [0usize; 6];
        let (mut n6, mut n4) = (0, 0);
        let mut i = 0;
        while i < n {
            if is6[i] {
                six[n6] = i;
                n6 += 1;
            } else {
                four[n4] = i;
                n4 += 1;
            }
            i += 1;
        }
        let (mut a, mut b, mut k) = (0, 0, 0);
        while a < n6 || b < n4 {
            if a < n6 {
                out[k] = six[a];
                a += 1;
                k += 1;
            }
            if b < n4 {
                out[k] = four[b];
                b += 1;
                k += 1;
            }
        }
        k
    }

    // Drives the real happy::connect up to the point where it starts racing: the resolver is replaced
    // by crate::verif::resolved_addrs (hook), and the iterator it is about to race over is handed to
    // crate::verif::record_attempt_order (hook).  Addresses carry their resolver index as port.
    fn run<const N: usize>() {
        let is6: [bool; N] = kani::any();
        unsafe {
            crate::verif::RESOLVED_N = N;
            let mut i = 0;
            while i < N {
                crate::verif::RESOLVED_IS6[i] = is6[i];
                i += 1;
            }
        }
        let r = connect(&url::Host::Domain("h"), 80, Duration::from_secs(1), None);
        assert!(r.is_err());
        std::mem::forget(r);
        let k = unsafe { crate::verif::ORDER_N };
        let got = unsafe { crate::verif::ORDER };
        let mut want = [usize::MAX; 6];
        let wk = reference(&is6, N, &mut want);
        assert!(k == wk, "C17: address lost or duplicated");
        let mut j = 0;
        while j < N {
            assert!(got[j] as usize == want[j], "C17: order is not v6/v4 alternating in resolver order");
            j += 1;
        }
        kani::cover!(N >= 2 && is6[0] != is6[1], "mixed families");
        kani::cover!(true, "must: reached end");
    }

    #[kani::proof]
    #[kani::unwind(8)]
    fn c17_q_intertwine_n0() {
        run::<0>();
    }
    #[kani::proof]
    #[kani::unwind(8)]
    fn c17_q_intertwine_n2() {
        run::<2>();
    }
    #[kani::proof]
    #[kani::unwind(8)]
    fn c17_q_intertwine_n3() {
        run::<3>();
    }
    #[kani::proof]
    #[kani::unwind(8)]
    fn c17_q_intertwine_n4() {
        run::<4>();
    }
    #[kani::proof]
    #[kani::unwind(8)]
    fn c17_t_intertwine_n5() {
        run::<5>();
    }
    #[kani::proof]
    #[kani::unwind(8)]
    fn c17_t_intertwine_n6() {
        run::<6>();
    }

    // Generic intertwine over two arbitrary-length (<=3) tagged sequences: output alternates
    // a,b,a,b…, then drains the longer one; nothing lost, duplicated or reordered.
    #[kani::proof]
    #[kani::unwind(8)]
    fn c17_q_intertwine_generic() {
        let la: usize = kani::any();
        let lb: usize = kani::any();
        kani::assume(la <= 3 && lb <= 3);
        let a = [10u8, 11, 12];
        let b = [20u8, 21, 22];
        let out = intertwine(a[..la].iter(), b[..lb].iter());
        let mut k = 0usize;
        let (mut ia, mut ib) = (0usize, 0usize);
        for v in out {
            // expected next element
            let take_a = if ia < la && ib < lb { ia == ib } else { ia < la };
            if take_a {
                assert!(*v == a[ia], "C17: wrong element from first family");
                ia += 1;
            } else {
                assert!(ib < lb && *v == b[ib], "C17: wrong element from second family");
                ib += 1;
            }
            k += 1;
            assert!(k <= 6);
        }
        assert!(ia == la && ib == lb, "C17: element dropped");
        kani::cover!(la == 3 && lb == 1);
        kani::cover!(la == 0 && lb == 3);
    }

    #[kani::proof]
    #[kani::unwind(8)]
    fn c17_qtwin_intertwine() {
        run::<3>();
        assert!(false, "twin: must be reported as FAILURE");
    }
}
