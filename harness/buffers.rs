// C04 / C05: the line readers and byte helpers on ALL inputs of a small window.

include!("hmacro.rs");

mod verif_buffers {
    use super::*;
    use crate::verif::{Fault, Script, Seg};

    /// read_line on every byte string of length N, with a byte limit and a BufReader capacity:
    ///  - Ok(n) iff a LF occurs within the first `limit` bytes; n = its offset + 1; the line is the
    ///    text before it minus one trailing CR;
    ///  - else Err; never more than `limit` bytes are buffered and never more than limit + cap
    ///    bytes are taken from the transport;
    ///  - afterwards the reader is positioned right behind the line (head/body hand-off).
    fn read_line_all<const N: usize>(limit: u64, cap: usize, seg: Seg) {
        let data: [u8; N] = kani::any();
        let mut script = Script::from_slice(&data, seg, Fault::Eof);
        let mut reader = BufReader::with_capacity(cap, script.handle());
        let mut line: Vec<u8> = Vec::new();
        let r = read_line(&mut reader, &mut line, limit);
        let window = if (limit as usize) < N { limit as usize } else { N };
        let mut lf = usize::MAX;
        let mut i = 0;
        while i < window {
            if data[i] == b'\n' && lf == usize::MAX {
                lf = i;
            }
            i += 1;
        }
        match &r {
            Ok(n) => {
                assert!(lf != usize::MAX, "C04: line reported although no LF arrived within the limit");
                assert!(*n == lf + 1, "C04: wrong number of bytes consumed for a line");
                let end = if lf > 0 && data[lf - 1] == b'\r' { lf - 1 } else { lf };
                assert!(line.len() == end, "C04: line has the wrong length");
                let mut j = 0;
                while j < end {
                    assert!(line[j] == data[j], "C04: line content differs from the wire");
                    j += 1;
                }
                // hand-off: the next byte the reader yields is the byte after the LF
                if lf + 1 < N {
                    let mut b = [0u8; 1];
                    let k = reader.read(&mut b);
                    assert!(matches!(k, Ok(1)) && b[0] == data[lf + 1], "C01: byte after the line lost or duplicated");
                    std::mem::forget(k);
                }
            }
            Err(_) => {
                assert!(lf == usize::MAX, "C04: complete line within the limit rejected");
            }
        }
        assert!(line.len() as u64 <= limit, "C05: more than the limit buffered for one line");
        assert!(script.total_served as u64 <= limit + cap as u64, "C05: unbounded input consumed for one line");
        kani::cover!(r.is_ok(), "must: a line is read");
        kani::cover!(r.is_err(), "must: a line is rejected");
        std::mem::forget(r);
        std::mem::forget(reader);
    }

    verif_harness!(c04_q_read_line_n3_whole, 10, { read_line_all::<3>(16, 8, Seg::Whole) });
    verif_harness!(c04_q_read_line_n4_onebyte, 10, { read_line_all::<4>(16, 2, Seg::OneByte) });
    verif_harness!(c04_q_read_line_n4_limit3, 10, { read_line_all::<4>(3, 8, Seg::Whole) });
    verif_harness!(c04_t_read_line_n5_max2, 10, { read_line_all::<5>(16, 3, Seg::Max(2)) });
    verif_harness!(c04_t_read_line_n5_limit4, 10, { read_line_all::<5>(4, 1, Seg::Whole) });
    verif_harness!(c04_t_read_line_n6_whole, 10, { read_line_all::<6>(16, 8, Seg::Whole) });

    // read_line_strict on fully symbolic bytes is out of reach (3 symbolic bytes: 36 M variables, 154 M
    // clauses, > 10 min and CBMC aborts at 4 bytes: the `loop { read_until }` nest over a heap Vec
    // with symbolic length).  Its CR/LF placements are therefore enumerated: the byte at each
    // position is drawn from {CR, LF, other} ("other" = a fixed obs-text byte); the runs are concrete
    // executions of the real code inside CBMC, all panics/bounds/overflow checks included.
    fn read_line_strict_classes(classes: &[u8], limit: u64, cap: usize, seg: Seg) {
        // concrete: even one symbolic non-delimiter byte makes the LF search symbolic for the
        // symbolic executor (assumptions do not prune symbolic execution) and does not finish
        let other: u8 = 0x80 | (classes.len() as u8);
        let n = classes.len();
        let mut data = [0u8; 8];
        let mut i = 0;
        while i < n {
            data[i] = match classes[i] {
                b'r' => b'\r',
                b'n' => b'\n',
                _ => other,
            };
            i += 1;
        }
        let mut script = Script::from_slice(&data[..n], seg, Fault::Eof);
        let mut reader = BufReader::with_capacity(cap, script.handle());
        let mut line: Vec<u8> = Vec::new();
        let r = read_line_strict(&mut reader, &mut line, limit);
        let window = if (limit as usize) < n { limit as usize } else { n };
        let mut end = usize::MAX;
        let mut i = 0;
        while i + 1 < window {
            if classes[i] == b'r' && classes[i + 1] == b'n' && end == usize::MAX {
                end = i;
            }
            i += 1;
        }
        match &r {
            Ok(m) => {
                assert!(end != usize::MAX, "C04: strict line reported without CR LF inside the limit");
                assert!(*m == end + 2, "C04: wrong number of bytes consumed for a strict line");
                assert!(line.len() == end, "C04: strict line has the wrong length");
                let mut j = 0;
                while j < end {
                    assert!(line[j] == data[j], "C04: strict line content differs from the wire");
                    j += 1;
                }
                if end + 2 < n {
                    let mut b = [0u8; 1];
                    let k = reader.read(&mut b);
                    assert!(matches!(k, Ok(1)) && b[0] == data[end + 2], "C01: byte after the head line lost or duplicated");
                    std::mem::forget(k);
                }
            }
            Err(_) => assert!(end == usize::MAX, "C04: complete CR LF line within the limit rejected"),
        }
        assert!(line.len() as u64 <= limit, "C05: more than the limit buffered for one head line");
        assert!(script.total_served as u64 <= limit + cap as u64, "C05: unbounded input consumed for one head line");
        std::mem::forget(r);
        std::mem::forget(reader);
    }

    /// all class strings over {r, n, o} of length `len` (3^len placements), one after the other
    fn read_line_strict_all_classes(len: usize, limit: u64, cap: usize, seg: Seg) {
        let mut idx = [0u8; 6];
        let mut count = 0;
        loop {
            let mut cls = [0u8; 6];
            let mut i = 0;
            while i < len {
                cls[i] = [b'r', b'n', b'o'][idx[i] as usize];
                i += 1;
            }
            read_line_strict_classes(&cls[..len], limit, cap, seg);
            count += 1;
            // next
            let mut k = 0;
            while k < len {
                idx[k] += 1;
                if idx[k] < 3 {
                    break;
                }
                idx[k] = 0;
                k += 1;
            }
            if k == len {
                break;
            }
        }
        kani::cover!(count > 1, "must: placements enumerated");
    }

    verif_harness!(c04_q_read_line_strict_len3_whole, 30, { read_line_strict_all_classes(3, 16, 8, Seg::Whole) });
    verif_harness!(c04_q_read_line_strict_len3_onebyte_limit2, 30, { read_line_strict_all_classes(3, 2, 2, Seg::OneByte) });
    verif_harness!(c04_t_read_line_strict_len4_max2, 90, { read_line_strict_all_classes(4, 16, 3, Seg::Max(2)) });

    /// read_line_ending: true iff the next bytes are LF or CR LF; consumes exactly those.
    verif_harness!(c04_q_read_line_ending_n3, 10, {
        let data: [u8; 3] = kani::any();
        let len: usize = kani::any();
        kani::assume(len <= 3);
        let mut script = Script::from_slice(&data, Seg::OneByte, Fault::Eof);
        script.len = len;
        let mut reader = BufReader::with_capacity(2, script.handle());
        let r = read_line_ending(&mut reader);
        let want = if len >= 1 && data[0] == b'\n' {
            Some(true)
        } else if len >= 2 && data[0] == b'\r' {
            Some(data[1] == b'\n')
        } else if len >= 1 && data[0] != b'\r' {
            Some(false)
        } else {
            None
        };
        match (&r, want) {
            (Ok(a), Some(b)) => assert!(*a == b, "C02: line ending after chunk data misjudged"),
            (Err(_), None) => {}
            _ => assert!(false, "C02: read_line_ending: wrong outcome on truncated input"),
        }
        kani::cover!(matches!(r, Ok(true)), "must: line ending seen");
        kani::cover!(r.is_err(), "must: truncated");
        std::mem::forget(r);
        std::mem::forget(reader);
    });

    /// trim_byte* / replace_byte against one-line specifications on all strings of length N
    fn trims<const N: usize>() {
        let data: [u8; N] = kani::any();
        let b: u8 = kani::any();
        let l = trim_byte_left(b, &data);
        let mut a = 0;
        while a < N && data[a] == b {
            a += 1;
        }
        assert!(l.len() == N - a, "C04: trim_byte_left removed the wrong number of bytes");
        let r = trim_byte_right(b, &data);
        let mut e = N;
        while e > 0 && data[e - 1] == b {
            e -= 1;
        }
        assert!(r.len() == e, "C04: trim_byte_right removed the wrong number of bytes");
        let t = trim_byte(b, &data);
        let want = if a >= e { 0 } else { e - a };
        assert!(t.len() == want, "C04: trim_byte result has the wrong length");
        let mut i = 0;
        while i < t.len() {
            assert!(t[i] == data[a + i], "C04: trim_byte altered the value");
            i += 1;
        }
        if l.len() > 0 {
            assert!(l[0] == data[a] && l[l.len() - 1] == data[N - 1], "C04: trim_byte_left altered the value");
        }
        let mut copy = data;
        let by: u8 = kani::any();
        replace_byte(b, by, &mut copy);
        let mut k = 0;
        while k < N {
            assert!(copy[k] == if data[k] == b { by } else { data[k] }, "C04: replace_byte wrong");
            k += 1;
        }
        kani::cover!(t.len() > 0 && t.len() < N, "must: something trimmed");
    }
    verif_harness!(c04_q_trim_n4, 10, { trims::<4>() });
    verif_harness!(c04_t_trim_n7, 10, { trims::<7>() });

    verif_harness!(c04_qtwin_read_line, 10, {
        read_line_all::<3>(16, 8, Seg::Whole);
        assert!(false, "twin: must be reported as FAILURE");
    });
}
