// harnesses for module buffers (included under cfg(kani))
