// Url factory — field-for-field mirror of url::Url 2.5.8 (see lib.rs).  Shared verbatim between the
// Kani harnesses (include!) and the native validator in /verif/tools/urlfactory.

#[allow(dead_code)]
#[derive(Copy, Clone)]
enum HostInternalM {
    None,
    Domain,
    Ipv4(std::net::Ipv4Addr),
    Ipv6(std::net::Ipv6Addr),
}

#[allow(dead_code)]
struct UrlM {
    serialization: String,
    scheme_end: u32,
    username_end: u32,
    host_start: u32,
    host_end: u32,
    host: HostInternalM,
    port: Option<u16>,
    path_start: u32,
    query_start: Option<u32>,
    fragment_start: Option<u32>,
}

#[derive(Copy, Clone)]
pub enum HostSpec<'a> {
    /// lower-case ASCII registered name
    Domain(&'a [u8]),
    /// IPv4 literal: address + its canonical dotted text
    V4([u8; 4], &'a [u8]),
    /// IPv6 literal: address + its canonical text without brackets
    V6([u16; 8], &'a [u8]),
}

#[derive(Copy, Clone)]
pub struct UrlSpec<'a> {
    pub https: bool,
    pub user: &'a [u8],
    /// password; must be non-empty when present (the parser drops an empty password)
    pub pass: Option<&'a [u8]>,
    pub host: HostSpec<'a>,
    /// explicit non-default port: value + its decimal text (no leading zeros)
    pub port: Option<(u16, &'a [u8])>,
    /// path without the leading '/', which is always added
    pub path: &'a [u8],
    pub query: Option<&'a [u8]>,
    pub fragment: Option<&'a [u8]>,
}

impl<'a> UrlSpec<'a> {
    pub fn simple(https: bool, host: &'a [u8]) -> UrlSpec<'a> {
        UrlSpec {
            https,
            user: b"",
            pass: None,
            host: HostSpec::Domain(host),
            port: None,
            path: b"",
            query: None,
            fragment: None,
        }
    }
}

fn push_all(v: &mut Vec<u8>, b: &[u8]) {
    let mut i = 0;
    while i < b.len() {
        v.push(b[i]);
        i += 1;
    }
}

pub fn url_text(spec: &UrlSpec) -> Vec<u8> {
    let mut s: Vec<u8> = Vec::with_capacity(64);
    push_all(&mut s, if spec.https { b"https" } else { b"http" });
    push_all(&mut s, b"://");
    if !spec.user.is_empty() || spec.pass.is_some() {
        push_all(&mut s, spec.user);
        if let Some(p) = spec.pass {
            s.push(b':');
            push_all(&mut s, p);
        }
        s.push(b'@');
    }
    match spec.host {
        HostSpec::Domain(d) => push_all(&mut s, d),
        HostSpec::V4(_, t) => push_all(&mut s, t),
        HostSpec::V6(_, t) => {
            s.push(b'[');
            push_all(&mut s, t);
            s.push(b']');
        }
    }
    if let Some((_, t)) = spec.port {
        s.push(b':');
        push_all(&mut s, t);
    }
    s.push(b'/');
    push_all(&mut s, spec.path);
    if let Some(q) = spec.query {
        s.push(b'?');
        push_all(&mut s, q);
    }
    if let Some(f) = spec.fragment {
        s.push(b'#');
        push_all(&mut s, f);
    }
    s
}

pub fn make_url(spec: &UrlSpec) -> url::Url {
    let s = url_text(spec);
    let scheme_end: u32 = if spec.https { 5 } else { 4 };
    let mut at = scheme_end + 3;
    let username_end;
    let host_start;
    if !spec.user.is_empty() || spec.pass.is_some() {
        username_end = at + spec.user.len() as u32;
        at = username_end;
        if let Some(p) = spec.pass {
            at += 1 + p.len() as u32;
        }
        at += 1; // '@'
        host_start = at;
    } else {
        username_end = at;
        host_start = at;
    }
    let (host, hlen) = match spec.host {
        HostSpec::Domain(d) => (HostInternalM::Domain, d.len() as u32),
        HostSpec::V4(a, t) => (HostInternalM::Ipv4(std::net::Ipv4Addr::new(a[0], a[1], a[2], a[3])), t.len() as u32),
        HostSpec::V6(a, t) => (
            HostInternalM::Ipv6(std::net::Ipv6Addr::new(a[0], a[1], a[2], a[3], a[4], a[5], a[6], a[7])),
            t.len() as u32 + 2,
        ),
    };
    let host_end = host_start + hlen;
    at = host_end;
    let port = match spec.port {
        Some((v, t)) => {
            at += 1 + t.len() as u32;
            Some(v)
        }
        None => None,
    };
    let path_start = at;
    at += 1 + spec.path.len() as u32;
    let query_start = match spec.query {
        Some(q) => {
            let p = at;
            at += 1 + q.len() as u32;
            Some(p)
        }
        None => None,
    };
    let fragment_start = match spec.fragment {
        Some(_) => Some(at),
        None => None,
    };
    let m = UrlM {
        serialization: unsafe { String::from_utf8_unchecked(s) },
        scheme_end,
        username_end,
        host_start,
        host_end,
        host,
        port,
        path_start,
        query_start,
        fragment_start,
    };
    unsafe { std::mem::transmute::<UrlM, url::Url>(m) }
}
