// harnesses for module settings (included under cfg(kani))
