// harnesses for module chunked_reader (included under cfg(kani))
