// C05 (and C01 value-exactness) on the chunk-size parser and the chunk decoder's own state.

include!("hmacro.rs");

mod verif_chunked {
    use super::*;
    use crate::verif::{hex_val, Fault, Script, Seg};
    use std::io::BufReader;

    fn is_ws(b: u8) -> bool {
        b == b' ' || (b >= 9 && b <= 13)
    }

    /// Reference for parse_chunk_size on ASCII input: text before the first ';', surrounding
    /// white space removed, optional '+', then 1..16 hex digits.
    fn reference(line: &[u8]) -> Option<usize> {
        let mut end = 0;
        while end < line.len() && line[end] != b';' {
            end += 1;
        }
        let mut a = 0;
        while a < end && is_ws(line[a]) {
            a += 1;
        }
        let mut b = end;
        while b > a && is_ws(line[b - 1]) {
            b -= 1;
        }
        if a < b && line[a] == b'+' {
            a += 1;
        }
        if a == b {
            return None;
        }
        let mut v: usize = 0;
        let mut i = a;
        while i < b {
            match hex_val(line[i]) {
                Some(d) => {
                    if v > (usize::MAX >> 4) {
                        return None;
                    }
                    v = (v << 4) | d;
                }
                None => return None,
            }
            i += 1;
        }
        Some(v)
    }

    /// every byte string of length N: no panic; on ASCII input the result equals the reference
    fn parse_all<const N: usize>() {
        let line: [u8; N] = kani::any();
        let r = parse_chunk_size(&line);
        let mut ascii = true;
        let mut i = 0;
        while i < N {
            if line[i] >= 0x80 {
                ascii = false;
            }
            i += 1;
        }
        // a leading '+' (accepted today because usize::from_str_radix accepts it) is not a well-formed
        // chunk size: refusing it is just as right, so the oracle only speaks when there is none
        let mut plus = false;
        let mut k = 0;
        while k < N {
            if line[k] == b'+' {
                plus = true;
            }
            k += 1;
        }
        if ascii && plus {
            if let (Ok(v), Some(w)) = (&r, reference(&line)) {
                assert!(*v == w, "C05/C01: chunk size parsed to a wrong value");
            }
            if let (Ok(_), None) = (&r, reference(&line)) {
                assert!(false, "C05: malformed chunk size accepted");
            }
        } else if ascii {
            match (&r, reference(&line)) {
                (Ok(v), Some(w)) => assert!(*v == w, "C05/C01: chunk size parsed to a wrong value"),
                (Ok(_), None) => assert!(false, "C05: malformed chunk size accepted"),
                (Err(_), Some(_)) => assert!(false, "C01: well-formed chunk size rejected"),
                (Err(_), None) => {}
            }
        }
        kani::cover!(N == 0 || r.is_ok(), "must: some input parses");
        kani::cover!(r.is_err(), "must: some input is rejected");
        std::mem::forget(r);
    }

    verif_harness!(c05_q_parse_chunk_size_len0, 12, { parse_all::<0>() });
    verif_harness!(c05_q_parse_chunk_size_len1, 12, { parse_all::<1>() });
    verif_harness!(c05_q_parse_chunk_size_len2, 12, { parse_all::<2>() });
    verif_harness!(c05_q_parse_chunk_size_len3, 12, { parse_all::<3>() });
    verif_harness!(c05_t_parse_chunk_size_len4, 12, { parse_all::<4>() });
    verif_harness!(c05_t_parse_chunk_size_len5, 12, { parse_all::<5>() });

    /// 16 / 17 hex digits (all symbolic digits): exact value resp. overflow rejected, never a wrapped value
    fn parse_long<const N: usize>() {
        let digs: [u8; N] = kani::any();
        let mut line = [0u8; N];
        let mut i = 0;
        while i < N {
            kani::assume(digs[i] < 16);
            line[i] = if digs[i] < 10 { b'0' + digs[i] } else { b'a' + digs[i] - 10 };
            i += 1;
        }
        kani::assume(digs[0] != 0);
        let r = parse_chunk_size(&line);
        match (&r, reference(&line)) {
            (Ok(v), Some(w)) => assert!(*v == w, "C05: long chunk size parsed to a wrong value"),
            (Ok(_), None) => assert!(false, "C05: chunk size beyond 64 bits accepted (wrapped)"),
            (Err(_), Some(_)) => assert!(false, "C01: 64-bit chunk size rejected"),
            (Err(_), None) => {}
        }
        kani::cover!(true, "must: reached");
        std::mem::forget(r);
    }
    verif_harness!(c05_q_parse_chunk_size_16digits, 20, { parse_long::<16>() });
    verif_harness!(c05_q_parse_chunk_size_17digits, 20, { parse_long::<17>() });

    verif_harness!(c05_qtwin_parse_chunk_size, 12, {
        parse_all::<2>();
        assert!(false, "twin: must be reported as FAILURE");
    });

    /// A chunk that merely *declares* a huge size must not make the decoder allocate it: the refill
    /// buffer never exceeds MAX_BUFFER_LEN (hook H3: 4 under Kani, 64 KiB in production), whatever
    /// the declared size, and the truncated body ends in an error.
    fn huge_declared(size_line: &[u8], avail: usize) {
        let mut wire = [0u8; crate::verif::WIRE_CAP];
        let mut n = 0;
        while n < size_line.len() {
            wire[n] = size_line[n];
            n += 1;
        }
        wire[n] = b'\r';
        wire[n + 1] = b'\n';
        n += 2;
        let mut i = 0;
        while i < avail {
            wire[n] = kani::any();
            n += 1;
            i += 1;
        }
        let mut script = Script::new(wire, n, Seg::Whole, Fault::Eof);
        let mut r = ChunkedReader::new(BufReader::with_capacity(8, script.handle()));
        let mut buf = [0u8; 8];
        let mut delivered = 0;
        let mut saw_err = false;
        let mut k = 0;
        while k < avail + 3 {
            match r.read(&mut buf) {
                Ok(m) => {
                    assert!(!(m == 0 && !saw_err), "C02: truncated huge chunk reported as complete");
                    delivered += m;
                }
                Err(e) => {
                    std::mem::forget(e);
                    saw_err = true;
                }
            }
            assert!(r.buffer.len() <= crate::verif::MAX_BUFFER_LEN, "C05: refill buffer grew beyond its limit");
            assert!(r.buffer.capacity() <= 2 * crate::verif::MAX_BUFFER_LEN + 132, "C05: allocation proportional to the declared chunk size");
            k += 1;
        }
        assert!(delivered <= avail, "C05: more bytes delivered than arrived");
        assert!(saw_err, "C05/C02: truncated huge chunk: no error");
        kani::cover!(delivered == (avail / crate::verif::MAX_BUFFER_LEN) * crate::verif::MAX_BUFFER_LEN, "must: full buffers delivered");
        std::mem::forget(r);
    }
    verif_harness!(c05_q_huge_2p31, 40, { huge_declared(b"80000000", 6) });
    verif_harness!(c05_q_huge_2p63, 40, { huge_declared(b"8000000000000000", 9) });
    verif_harness!(c05_q_huge_max, 40, { huge_declared(b"ffffffffffffffff", 4) });
    verif_harness!(c05_t_huge_2p62_lz, 40, { huge_declared(b"004000000000000000", 13) });

    /// 2^64 as declared size: rejected
    verif_harness!(c05_q_huge_2p64_rejected, 40, {
        let mut script = Script::from_slice(b"10000000000000000\r\nabcd\r\n0\r\n\r\n", Seg::Whole, Fault::Eof);
        let mut r = ChunkedReader::new(BufReader::with_capacity(64, script.handle()));
        let mut buf = [0u8; 8];
        let x = r.read(&mut buf);
        assert!(x.is_err(), "C05: chunk size 2^64 accepted");
        kani::cover!(true, "must: reached");
        std::mem::forget(x);
        std::mem::forget(r);
    });

    /// endless chunk-size line: rejected after at most 128 bytes of it were buffered
    verif_harness!(c05_q_endless_size_line, 20, {
        let wire = [b'1'; crate::verif::WIRE_CAP];
        // the transport serves the same 64 bytes over and over: an endless line
        let mut script = Script::new(wire, crate::verif::WIRE_CAP, Seg::Whole, Fault::Eof);
        script.endless = true;
        let mut r = ChunkedReader::new(BufReader::with_capacity(16, script.handle()));
        // read_chunk_size is the first thing fill_buf does on a fresh reader; calling it directly
        // keeps the (infeasible, but not constant-foldable) continuation into resize/read_exact
        // out of the symbolic execution
        let x = r.read_chunk_size();
        assert!(x.is_err(), "C05: endless chunk-size line not rejected");
        assert!(script.total_served <= 128 + 16, "C05: unbounded input consumed for one chunk-size line");
        assert!(r.buffer.capacity() <= 256, "C05: chunk-size line buffered without bound");
        kani::cover!(true, "must: reached");
        std::mem::forget(x);
        std::mem::forget(r);
    });

    // ------------------------------------------------------------------ inductive step (C01/C02/C05)
    /// One `read` from an ARBITRARY state satisfying the representation invariant
    ///     INV:  consumed <= buffer.len() <= MAX_BUFFER_LEN  and  !failed
    ///           and (reached_eof => remaining == 0)
    /// (buffer contents, consumed, reached_eof symbolic; buffer length and `remaining` enumerated — a
    /// symbolic `remaining` makes the refill length symbolic and does not finish), against
    /// a transport whose next bytes are `next` (concrete framing, e.g. the rest of a chunk, its CR LF
    /// and the following size line) followed by `fault`.  Asserted for every such state:
    ///   * no panic;  INV' holds afterwards:  consumed <= buffer.len() <= MAX_BUFFER_LEN, and after an
    ///     error the reader is failed with an empty buffer (nothing stale can be handed out later);
    ///   * bytes still buffered are handed out first, in order, without touching the transport;
    ///   * a refill never buffers more than min(remaining, MAX_BUFFER_LEN).
    /// One step from every valid state covers read histories of any length (given INV is inductive,
    /// which the second assertion group shows).  NOTE: the "failed with an empty buffer after an
    /// error" clause is the invariant that makes the prefix property inductive for THIS
    /// representation (the decoder cannot resynchronise, so it must not be usable after an error);
    /// a decoder that could correctly resume after a transient error would need a different
    /// invariant here — a failure of that clause is triaged against the end-to-end C02 harnesses.
    fn step<const L: usize>(remaining: usize, next: &[u8], fault: Fault, rd: usize) {
        let content: [u8; L] = kani::any();
        let consumed: usize = kani::any();
        let reached_eof: bool = kani::any();
        kani::assume(consumed <= L);
        kani::assume(!reached_eof || remaining == 0);
        let mut script = Script::from_slice(next, Seg::Whole, fault);
        let mut r = ChunkedReader::new(BufReader::with_capacity(16, script.handle()));
        r.buffer = content.to_vec();
        r.consumed = consumed;
        r.remaining = remaining;
        r.reached_eof = reached_eof;
        let mut buf = [0u8; 8];
        let res = r.read(&mut buf[..rd]);
        assert!(r.consumed <= r.buffer.len(), "C05: decoder state corrupt after a read (cursor beyond buffer)");
        assert!(r.buffer.len() <= crate::verif::MAX_BUFFER_LEN, "C05: refill buffer beyond its limit");
        match &res {
            Ok(n) => {
                assert!(*n <= rd, "C01: more bytes returned than the caller's buffer holds");
                assert!(!reached_eof || remaining != 0 || *n == 0 || consumed < L, "C01: data after the terminating chunk");
                if consumed < L {
                    // served from the buffer, in order, transport untouched
                    let avail = L - consumed;
                    let want = if rd < avail { rd } else { avail };
                    assert!(*n == want, "C19/C01: buffered bytes not handed out first");
                    let mut i = 0;
                    while i < want {
                        assert!(buf[i] == content[consumed + i], "C01: buffered bytes handed out in the wrong order");
                        i += 1;
                    }
                    assert!(script.reads == 0, "C19: transport read although buffered data was available");
                } else if !(reached_eof && remaining == 0) {
                    // a refill happened
                    assert!(!r.failed, "C02: successful refill left the reader failed");
                }
            }
            Err(_) => {
                assert!(r.failed && r.buffer.is_empty() && r.consumed == 0, "C02: error left stale data in the decoder");
                assert!(consumed == L, "C02: error although buffered data was available");
            }
        }
        kani::cover!(consumed == L, "must: refill path taken");
        kani::cover!(L == 0 || consumed < L, "must: served from the buffer");
        kani::cover!(res.is_err(), "error path");
        std::mem::forget(res);
        std::mem::forget(r);
    }

    verif_harness!(c05_q_step_l0_rem6_rest_of_chunk, 24, { step::<0>(6, b"abcdef\r\n3\r\nxyz\r\n0\r\n\r\n", Fault::Eof, 3) });
    verif_harness!(c05_q_step_l3_rem0_sizeline_next, 24, { step::<3>(0, b"5\r\nhello\r\n0\r\n\r\n", Fault::Eof, 2) });
    verif_harness!(c05_q_step_l4_rem3_truncated, 24, { step::<4>(3, b"ab", Fault::Reset, 8) });
    verif_harness!(c05_q_step_l2_rem2_bad_lineend, 24, { step::<2>(2, b"abXY", Fault::Eof, 1) });
    verif_harness!(c05_t_step_l1_rem0_terminator, 24, { step::<1>(0, b"0\r\n\r\n", Fault::Eof, 4) });
    verif_harness!(c05_t_step_l4_rem_huge, 24, { step::<4>(1usize << 62, b"abcdefgh", Fault::Eof, 8) });
    verif_harness!(c05_q_step_l0_rem1_wouldblock, 24, { step::<0>(1, b"", Fault::WouldBlock, 2) });
    verif_harness!(c05_q_step_l2_rem4_timedout, 24, { step::<2>(4, b"abcd\r\n", Fault::TimedOut, 8) });
}
