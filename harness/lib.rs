// Shared verification support, compiled into attohttpc as `crate::verif` under cfg(kani) only.
// Included by the H1 hook in src/lib.rs.  Nothing here is part of the library.

use std::io::{self, Read, Write};

/// Shrunken refill buffer of ChunkedReader (hook H3).  Production value: 64 KiB.
pub const MAX_BUFFER_LEN: usize = 4;

pub const WIRE_CAP: usize = 64;
pub const OUT_CAP: usize = 160;

#[derive(Clone, Copy, PartialEq, Eq, Debug)]
pub enum Fault {
    Eof,
    Reset,
    WouldBlock,
    TimedOut,
}

#[derive(Clone, Copy, PartialEq, Eq, Debug)]
pub enum Seg {
    /// a read returns as much as the caller's buffer and the remaining wire allow
    Whole,
    /// every read returns exactly one byte
    OneByte,
    /// the first segment ends at offset p, the rest arrives as one segment
    SplitAt(usize),
    /// every read returns at most m bytes
    Max(usize),
}

/// Handle stored in BaseStream::Verif.  The script itself lives outside the enum: CBMC loses the
/// concreteness of cursor/length fields when a large struct with symbolic bytes sits inside an enum
/// (union) payload, which makes every loop bound symbolic.
pub struct Scripted(pub *mut Script);

impl std::fmt::Debug for Scripted {
    fn fmt(&self, _f: &mut std::fmt::Formatter<'_>) -> std::fmt::Result {
        Ok(())
    }
}

impl Scripted {
    pub fn script(&self) -> &Script {
        unsafe { &*self.0 }
    }
}

impl Read for Scripted {
    fn read(&mut self, buf: &mut [u8]) -> io::Result<usize> {
        unsafe { (*self.0).read(buf) }
    }
}

impl Write for Scripted {
    fn write(&mut self, buf: &[u8]) -> io::Result<usize> {
        unsafe { (*self.0).write(buf) }
    }
    fn flush(&mut self) -> io::Result<()> {
        unsafe { (*self.0).flush() }
    }
}

/// Scripted in-memory transport.  Contract: a read with a non-empty buffer returns >= 1 byte
/// while bytes are available; at the end of the script it produces `fault` (forever).
pub struct Script {
    pub data: [u8; WIRE_CAP],
    pub len: usize,
    pub pos: usize,
    pub seg: Seg,
    pub fault: Fault,
    /// number of non-empty reads issued while the cursor was at the end of the script
    pub end_hits: usize,
    pub reads: usize,
    pub out: [u8; OUT_CAP],
    pub out_len: usize,
    /// out_len at the moment of the first read (usize::MAX before any read)
    pub out_at_first_read: usize,
    /// out_len at the moment of the latest read
    pub out_at_last_read: usize,
    pub out_overflow: bool,
    pub flushes: usize,
    /// transient fault: when > len, the fault at `len` is produced once and the script then
    /// continues up to resume_len
    pub resume_len: usize,
    /// endless stream: when the script is exhausted it starts over (for 'line without end' cases)
    pub endless: bool,
    pub total_served: usize,
}

impl std::fmt::Debug for Script {
    fn fmt(&self, _f: &mut std::fmt::Formatter<'_>) -> std::fmt::Result {
        Ok(())
    }
}

impl Script {
    pub fn new(data: [u8; WIRE_CAP], len: usize, seg: Seg, fault: Fault) -> Script {
        Script {
            data,
            len,
            pos: 0,
            seg,
            fault,
            end_hits: 0,
            reads: 0,
            out: [0; OUT_CAP],
            out_len: 0,
            out_at_first_read: usize::MAX,
            out_at_last_read: 0,
            out_overflow: false,
            flushes: 0,
            resume_len: 0,
            endless: false,
            total_served: 0,
        }
    }

    pub fn from_slice(bytes: &[u8], seg: Seg, fault: Fault) -> Script {
        let mut data = [0u8; WIRE_CAP];
        let mut i = 0;
        while i < bytes.len() {
            data[i] = bytes[i];
            i += 1;
        }
        Script::new(data, bytes.len(), seg, fault)
    }

    /// handle to store inside BaseStream::Verif; `self` must outlive every use of the handle
    pub fn handle(&mut self) -> Scripted {
        Scripted(self as *mut Script)
    }

    pub fn written(&self) -> &[u8] {
        &self.out[..self.out_len]
    }
}

pub fn fault_result(f: Fault) -> io::Result<usize> {
    match f {
        Fault::Eof => Ok(0),
        Fault::Reset => Err(io::ErrorKind::ConnectionReset.into()),
        Fault::WouldBlock => Err(io::ErrorKind::WouldBlock.into()),
        Fault::TimedOut => Err(io::ErrorKind::TimedOut.into()),
    }
}

impl Read for Script {
    fn read(&mut self, buf: &mut [u8]) -> io::Result<usize> {
        if buf.is_empty() {
            return Ok(0);
        }
        self.reads += 1;
        if self.out_at_first_read == usize::MAX {
            self.out_at_first_read = self.out_len;
        }
        self.out_at_last_read = self.out_len;
        if self.pos >= self.len && self.endless {
            self.pos = 0;
        }
        if self.pos >= self.len {
            self.end_hits += 1;
            if self.resume_len > self.len {
                self.len = self.resume_len;
            }
            return fault_result(self.fault);
        }
        let mut n = std::cmp::min(buf.len(), self.len - self.pos);
        match self.seg {
            Seg::Whole => {}
            Seg::OneByte => n = 1,
            Seg::SplitAt(p) => {
                if self.pos < p {
                    n = std::cmp::min(n, p - self.pos);
                }
            }
            Seg::Max(m) => n = std::cmp::min(n, m),
        }
        buf[..n].copy_from_slice(&self.data[self.pos..self.pos + n]);
        self.pos += n;
        self.total_served += n;
        Ok(n)
    }
}

impl Write for Script {
    fn write(&mut self, buf: &[u8]) -> io::Result<usize> {
        let room = OUT_CAP - self.out_len;
        if buf.len() > room {
            self.out_overflow = true;
            return Err(io::ErrorKind::WriteZero.into());
        }
        self.out[self.out_len..self.out_len + buf.len()].copy_from_slice(buf);
        self.out_len += buf.len();
        Ok(buf.len())
    }

    fn write_all(&mut self, buf: &[u8]) -> io::Result<()> {
        match self.write(buf) {
            Ok(_) => Ok(()),
            Err(e) => Err(e),
        }
    }

    fn flush(&mut self) -> io::Result<()> {
        self.flushes += 1;
        Ok(())
    }
}

/// Plain byte sink with a fixed capacity (for writer-side harnesses).
pub struct Sink<const N: usize> {
    pub out: [u8; N],
    pub len: usize,
    pub calls: usize,
}

impl<const N: usize> Sink<N> {
    pub fn new() -> Self {
        Sink {
            out: [0; N],
            len: 0,
            calls: 0,
        }
    }
    pub fn bytes(&self) -> &[u8] {
        &self.out[..self.len]
    }
}

impl<const N: usize> Write for Sink<N> {
    fn write(&mut self, buf: &[u8]) -> io::Result<usize> {
        self.calls += 1;
        if buf.len() > N - self.len {
            return Err(io::ErrorKind::WriteZero.into());
        }
        self.out[self.len..self.len + buf.len()].copy_from_slice(buf);
        self.len += buf.len();
        Ok(buf.len())
    }
    // write() always takes the whole buffer: spelling write_all out avoids std's retry loop, which
    // the symbolic executor cannot bound when the length of `buf` comes out of core::fmt
    fn write_all(&mut self, buf: &[u8]) -> io::Result<()> {
        match self.write(buf) {
            Ok(_) => Ok(()),
            Err(e) => Err(e),
        }
    }
    fn flush(&mut self) -> io::Result<()> {
        Ok(())
    }
}

// ---------------------------------------------------------------------------------------------
// Dial hook (H2): BaseStream::connect hands the peer it was about to dial to the harness.

#[derive(Clone, Copy, PartialEq, Eq, Debug)]
pub enum DialHost {
    None,
    Domain { bytes: [u8; 16], len: usize },
    V4([u8; 4]),
    V6([u16; 8]),
}

#[derive(Clone, Copy, PartialEq, Eq, Debug)]
pub struct DialRecord {
    pub host: DialHost,
    pub port: u16,
    pub https: bool,
}

pub const MAX_DIALS: usize = 4;
pub static mut DIAL_COUNT: usize = 0;
pub static mut DIAL_LOG: [DialRecord; MAX_DIALS] = [DialRecord {
    host: DialHost::None,
    port: 0,
    https: false,
}; MAX_DIALS];
/// Wire image each successive dial will serve (index = dial number).
pub static mut DIAL_WIRE: [([u8; WIRE_CAP], usize); MAX_DIALS] = [([0; WIRE_CAP], 0); MAX_DIALS];
pub static mut DIAL_SCRIPTS: [Option<Script>; MAX_DIALS] = [None, None, None, None];
pub static mut DIAL_REFUSE: bool = false;

pub fn dial(host: &url::Host<&str>, port: u16, scheme: &str) -> crate::Result<Scripted> {
    let rec_host = match host {
        url::Host::Domain(d) => {
            let b = d.as_bytes();
            let mut bytes = [0u8; 16];
            let mut i = 0;
            while i < b.len() && i < 16 {
                bytes[i] = b[i];
                i += 1;
            }
            DialHost::Domain { bytes, len: b.len() }
        }
        url::Host::Ipv4(a) => DialHost::V4(a.octets()),
        url::Host::Ipv6(a) => DialHost::V6(a.segments()),
    };
    unsafe {
        let k = DIAL_COUNT;
        assert!(k < MAX_DIALS, "verif: more dials than the harness provisioned");
        DIAL_LOG[k] = DialRecord {
            host: rec_host,
            port,
            https: scheme.len() == 5,
        };
        DIAL_COUNT = k + 1;
        if DIAL_REFUSE {
            return Err(crate::ErrorKind::Io(io::ErrorKind::ConnectionRefused.into()).into());
        }
        let (data, len) = DIAL_WIRE[k];
        DIAL_SCRIPTS[k] = Some(Script::new(data, len, Seg::Whole, Fault::Eof));
        match &mut DIAL_SCRIPTS[k] {
            Some(s) => Ok(s.handle()),
            None => unreachable!(),
        }
    }
}

// ---------------------------------------------------------------------------------------------
// Resolver override + attempt-order probe for happy::connect (C17 ordering clause).

pub static mut RESOLVED_N: usize = 0;
pub static mut RESOLVED_IS6: [bool; 8] = [false; 8];
pub static mut ORDER_N: usize = 0;
pub static mut ORDER: [u16; 8] = [0; 8];

/// Stands in for `(domain, port).to_socket_addrs()`: address i carries its resolver index as port.
pub fn resolved_addrs() -> Vec<std::net::SocketAddr> {
    use std::net::{IpAddr, Ipv4Addr, Ipv6Addr, SocketAddr};
    let mut v = Vec::with_capacity(8);
    let mut i = 0;
    unsafe {
        while i < RESOLVED_N {
            let ip = if RESOLVED_IS6[i] {
                IpAddr::V6(Ipv6Addr::new(0, 0, 0, 0, 0, 0, 0, 1))
            } else {
                IpAddr::V4(Ipv4Addr::new(127, 0, 0, 1))
            };
            v.push(SocketAddr::new(ip, i as u16));
            i += 1;
        }
    }
    v
}

/// Receives the iterator happy::connect is about to race over and records the order.
pub fn record_attempt_order<'a, I: Iterator<Item = &'a std::net::SocketAddr>>(it: I) -> io::Result<std::net::TcpStream> {
    unsafe {
        ORDER_N = 0;
        for a in it {
            if ORDER_N < 8 {
                ORDER[ORDER_N] = a.port();
            }
            ORDER_N += 1;
        }
    }
    Err(io::ErrorKind::Other.into())
}

// ---------------------------------------------------------------------------------------------
// Url factory: url::Url has no constructor other than the parser, which is out of reach for the
// solver.  The factory lays the fields out exactly as the parser would for the grammar
//   scheme "://" [ user [ ":" pass ] "@" ] host [ ":" port ] path [ "?" query ] [ "#" fragment ]
// and transmutes a field-for-field mirror (url 2.5.8).  Validated natively against Url::parse by
// /verif/tools/urlfactory (same struct definitions).

include!("urlfactory.rs");

// ---------------------------------------------------------------------------------------------
// Stubs for std kernels (naive equivalents).

pub fn memchr_naive(x: u8, text: &[u8]) -> Option<usize> {
    let mut i = 0;
    while i < text.len() {
        if text[i] == x {
            return Some(i);
        }
        i += 1;
    }
    None
}

pub fn ascii_lower(b: u8) -> u8 {
    if b >= b'A' && b <= b'Z' {
        b + 32
    } else {
        b
    }
}

pub fn is_digit(b: u8) -> bool {
    b >= b'0' && b <= b'9'
}

pub fn hex_val(b: u8) -> Option<usize> {
    match b {
        b'0'..=b'9' => Some((b - b'0') as usize),
        b'a'..=b'f' => Some((b - b'a') as usize + 10),
        b'A'..=b'F' => Some((b - b'A') as usize + 10),
        _ => None,
    }
}

// ---------------------------------------------------------------------------------------------
// Wire generator + reference payload (independent oracle for the response-body properties).

pub const PAY_CAP: usize = 24;

/// When set, payload bytes are concrete ('A', 'B', ...) instead of symbolic: used by the harnesses in
/// which a *broken* decoder would go on to parse payload bytes as framing (transient faults), which
/// with symbolic payload makes line lengths symbolic and the run inconclusive instead of failing.
pub static mut CONCRETE_PAYLOAD: bool = false;

fn payload_byte(i: usize) -> u8 {
    if unsafe { CONCRETE_PAYLOAD } {
        b'A' + (i as u8 % 26)
    } else {
        kani::any()
    }
}

#[derive(Clone, Copy)]
pub struct Ch {
    /// chunk data size (>= 1)
    pub size: usize,
    /// leading zeros in the size field
    pub zeros: usize,
    /// 0: none, 1: ";x", 2: ";x=y", 3: " " (blank before CRLF)
    pub ext: usize,
    /// size line / data terminated by bare LF instead of CRLF
    pub bare_lf: bool,
}

pub const fn ch(size: usize) -> Ch {
    Ch {
        size,
        zeros: 0,
        ext: 0,
        bare_lf: false,
    }
}

pub struct Case {
    pub wire: [u8; WIRE_CAP],
    /// total bytes on the wire (frame + trailing garbage)
    pub wire_len: usize,
    /// length of the complete frame (for chunked: through the CRLF after the zero chunk)
    pub frame_len: usize,
    pub payload: [u8; PAY_CAP],
    pub pay_len: usize,
    /// for every wire offset < frame_len: number of payload bytes that are fully contained in
    /// wire[..offset] *and* deliverable (chunked: only complete chunks incl. their CRLF count for C19)
    pub complete_at: [usize; WIRE_CAP + 1],
    /// payload bytes contained in wire[..offset] (regardless of chunk completion)
    pub present_at: [usize; WIRE_CAP + 1],
}

fn any_non_delim() -> u8 {
    let b: u8 = kani::any();
    kani::assume(b != b'\r' && b != b'\n' && b != b';' && b >= 0x21 && b < 0x7f);
    b
}

fn hex_digit(v: usize, upper: bool) -> u8 {
    if v < 10 {
        b'0' + v as u8
    } else if upper {
        b'A' + (v as u8 - 10)
    } else {
        b'a' + (v as u8 - 10)
    }
}

impl Case {
    fn new() -> Case {
        Case {
            wire: [0; WIRE_CAP],
            wire_len: 0,
            frame_len: 0,
            payload: [0; PAY_CAP],
            pay_len: 0,
            complete_at: [0; WIRE_CAP + 1],
            present_at: [0; WIRE_CAP + 1],
        }
    }
    fn put(&mut self, b: u8, complete: usize, present: usize) {
        self.wire[self.wire_len] = b;
        self.wire_len += 1;
        self.complete_at[self.wire_len] = complete;
        self.present_at[self.wire_len] = present;
    }

    /// chunked body: data chunks as per `shape`, terminator, then `garbage` arbitrary bytes.
    /// Payload and garbage bytes are symbolic.  Everything on a size line is concrete (a symbolic
    /// byte inside a line makes the position of the line end symbolic for the symbolic executor,
    /// and with it every later length): hex-letter case and extension text are enumerated instead.
    pub fn chunked(shape: &[Ch], garbage: usize, upper: bool) -> Case {
        let mut c = Case::new();
        let mut k = 0;
        while k < shape.len() {
            let s = shape[k];
            let done = c.pay_len;
            let mut z = 0;
            while z < s.zeros {
                c.put(b'0', done, done);
                z += 1;
            }
            if s.size >= 16 {
                c.put(hex_digit(s.size / 16, upper), done, done);
            }
            c.put(hex_digit(s.size % 16, upper), done, done);
            if s.ext == 1 || s.ext == 2 {
                c.put(b';', done, done);
                c.put(if upper { b'X' } else { b'x' }, done, done);
                if s.ext == 2 {
                    c.put(b'=', done, done);
                    c.put(b'"', done, done);
                    c.put(b'1', done, done);
                    c.put(b'"', done, done);
                }
            } else if s.ext == 3 {
                c.put(b' ', done, done);
            }
            if !s.bare_lf {
                c.put(b'\r', done, done);
            }
            c.put(b'\n', done, done);
            let mut i = 0;
            while i < s.size {
                let b: u8 = payload_byte(c.pay_len);
                c.payload[c.pay_len] = b;
                c.pay_len += 1;
                c.put(b, done, c.pay_len);
                i += 1;
            }
            if !s.bare_lf {
                c.put(b'\r', done, c.pay_len);
            }
            c.put(b'\n', done, c.pay_len);
            // chunk complete (incl. its line ending)
            c.complete_at[c.wire_len] = c.pay_len;
            k += 1;
        }
        let p = c.pay_len;
        c.put(b'0', p, p);
        c.put(b'\r', p, p);
        c.put(b'\n', p, p);
        c.put(b'\r', p, p);
        c.put(b'\n', p, p);
        c.frame_len = c.wire_len;
        let mut g = 0;
        while g < garbage {
            let b: u8 = kani::any();
            c.put(b, p, p);
            g += 1;
        }
        c
    }

    /// raw body of n symbolic bytes followed by `garbage` symbolic bytes (Content-Length / close framing)
    pub fn raw(n: usize, garbage: usize) -> Case {
        let mut c = Case::new();
        let mut i = 0;
        while i < n {
            let b: u8 = kani::any();
            c.payload[c.pay_len] = b;
            c.pay_len += 1;
            let p = c.pay_len;
            c.put(b, p, p);
            i += 1;
        }
        c.frame_len = c.wire_len;
        let mut g = 0;
        while g < garbage {
            let b: u8 = kani::any();
            c.put(b, n, n);
            g += 1;
        }
        c
    }

    pub fn transport(&self, upto: usize, seg: Seg, fault: Fault) -> Script {
        Script::new(self.wire, upto, seg, fault)
    }
}

/// Result of driving a reader with a fixed caller read size.
pub struct Drive {
    pub delivered: usize,
    pub eof: bool,
    pub err: bool,
    pub reads_after_terminal: usize,
    pub bad_byte: bool,
    pub overrun: bool,
    pub eof_before_err: bool,
    pub data_after_eof: bool,
}

/// Reads with caller buffers of `rd` bytes, at most `max_reads` times; after the first terminal
/// result (Ok(0) or Err) keeps reading `extra` more times.  Checks the delivered bytes against the
/// reference payload on the fly (prefix property).
pub fn drive<R: Read>(r: &mut R, case: &Case, rd: usize, max_reads: usize, extra: usize) -> Drive {
    let mut d = Drive {
        delivered: 0,
        eof: false,
        err: false,
        reads_after_terminal: 0,
        bad_byte: false,
        overrun: false,
        eof_before_err: false,
        data_after_eof: false,
    };
    let mut buf = [0u8; 8];
    let mut i = 0;
    while i < max_reads {
        let terminal = d.eof || d.err;
        if terminal {
            if d.reads_after_terminal >= extra {
                break;
            }
            d.reads_after_terminal += 1;
        }
        match r.read(&mut buf[..rd]) {
            Ok(0) => {
                if !d.err {
                    d.eof_before_err = true;
                }
                d.eof = true;
            }
            Ok(n) => {
                if d.eof {
                    d.data_after_eof = true;
                }
                let mut j = 0;
                while j < n {
                    if d.delivered + j >= case.pay_len {
                        d.overrun = true;
                    } else if buf[j] != case.payload[d.delivered + j] {
                        d.bad_byte = true;
                    }
                    j += 1;
                }
                d.delivered += n;
                // a mismatch is already a violation; with concrete payload this stops the run
                // before a broken decoder goes on to parse payload bytes as framing
                if unsafe { CONCRETE_PAYLOAD } && (d.bad_byte || d.overrun) {
                    break;
                }
            }
            Err(e) => {
                std::mem::forget(e);
                d.err = true;
            }
        }
        i += 1;
    }
    d
}

/// Hook H6: stands in for streams::read_timeout under cfg(kani).  The watchdog ping through the
/// mpsc channel (`timeout.send(())`) makes kani-compiler 0.68 crash (intrinsics.rs:243), and the
/// Plain/Tls variants that use it are never constructed under Kani (C13 is not applicable).
pub fn read_no_watchdog<R: Read>(stream: &mut R, buf: &mut [u8], _timeout: &Option<std::sync::mpsc::Sender<()>>) -> io::Result<usize> {
    stream.read(buf)
}

// ---------------------------------------------------------------------------------------------
// Model of core::str::from_utf8 (stub).  std's validator takes a word-at-a-time fast path that
// depends on `align_offset`, which is nondeterministic under Kani: the scan index becomes symbolic
// and a 2-byte line no longer unwinds.  This is a plain byte-by-byte validator of the same language
// (RFC 3629 well-formed UTF-8); the error payload is never inspected by attohttpc.

struct Utf8ErrorM {
    valid_up_to: usize,
    error_len: Option<u8>,
}

fn utf8_err(at: usize) -> std::str::Utf8Error {
    unsafe {
        std::mem::transmute::<Utf8ErrorM, std::str::Utf8Error>(Utf8ErrorM {
            valid_up_to: at,
            error_len: Some(1),
        })
    }
}

pub fn utf8_valid(v: &[u8]) -> Result<(), usize> {
    let n = v.len();
    let mut i = 0;
    while i < n {
        let b = v[i];
        if b < 0x80 {
            i += 1;
            continue;
        }
        let cont = |k: usize, lo: u8, hi: u8| -> bool { k < n && v[k] >= lo && v[k] <= hi };
        if b >= 0xC2 && b <= 0xDF {
            if !cont(i + 1, 0x80, 0xBF) {
                return Err(i);
            }
            i += 2;
        } else if b >= 0xE0 && b <= 0xEF {
            let (lo, hi) = if b == 0xE0 {
                (0xA0, 0xBF)
            } else if b == 0xED {
                (0x80, 0x9F)
            } else {
                (0x80, 0xBF)
            };
            if !cont(i + 1, lo, hi) || !cont(i + 2, 0x80, 0xBF) {
                return Err(i);
            }
            i += 3;
        } else if b >= 0xF0 && b <= 0xF4 {
            let (lo, hi) = if b == 0xF0 {
                (0x90, 0xBF)
            } else if b == 0xF4 {
                (0x80, 0x8F)
            } else {
                (0x80, 0xBF)
            };
            if !cont(i + 1, lo, hi) || !cont(i + 2, 0x80, 0xBF) || !cont(i + 3, 0x80, 0xBF) {
                return Err(i);
            }
            i += 4;
        } else {
            return Err(i);
        }
    }
    Ok(())
}

pub fn from_utf8_model(v: &[u8]) -> Result<&str, std::str::Utf8Error> {
    match utf8_valid(v) {
        Ok(()) => Ok(unsafe { std::str::from_utf8_unchecked(v) }),
        Err(at) => Err(utf8_err(at)),
    }
}

/// Stub for std::io::Error::is_interrupted (used by the retry loops of read_exact / read_until /
/// BufReader).  Under CBMC the kind of a bit-packed io::Error is not constant-folded, so every
/// retry loop is unwound to the bound whenever an error flows through it.  Returning `false` is
/// exact under the assumption (stated in the evidence) that the transport never produces
/// ErrorKind::Interrupted; std retries those transparently and no property quantifies over them.
pub fn never_interrupted(_e: &io::Error) -> bool {
    false
}

// ---------------------------------------------------------------------------------------------
// Model of http::header::HeaderName::from_bytes (stub) for the names used by the enumerated heads.
// The real function did not finish symbolic execution within 300 s even on a constant 6-byte name
// (table-mapped copy into a MaybeUninit scratch buffer followed by an ~80-way slice match).  The
// model is exact on the names listed here and refuses (harness error) anything else, so it cannot
// silently mis-model an input.  Header-name parsing itself is the http crate's and is trusted.

fn name_is(src: &[u8], lower: &[u8]) -> bool {
    if src.len() != lower.len() {
        return false;
    }
    let mut i = 0;
    while i < src.len() {
        if ascii_lower(src[i]) != lower[i] {
            return false;
        }
        i += 1;
    }
    true
}

pub fn header_name_model(src: &[u8]) -> Result<http::header::HeaderName, http::header::InvalidHeaderName> {
    use http::header::*;
    if name_is(src, b"content-length") {
        Ok(CONTENT_LENGTH)
    } else if name_is(src, b"transfer-encoding") {
        Ok(TRANSFER_ENCODING)
    } else if name_is(src, b"content-encoding") {
        Ok(CONTENT_ENCODING)
    } else if name_is(src, b"content-type") {
        Ok(CONTENT_TYPE)
    } else if name_is(src, b"set-cookie") {
        Ok(SET_COOKIE)
    } else if name_is(src, b"location") {
        Ok(LOCATION)
    } else if name_is(src, b"server") {
        Ok(SERVER)
    } else if name_is(src, b"connection") {
        Ok(CONNECTION)
    } else if name_is(src, b"bad name") || name_is(src, b"") || name_is(src, b"a b") {
        // names with a blank (or empty) are invalid field names
        Err(unsafe { std::mem::transmute::<(), InvalidHeaderName>(()) })
    } else {
        panic!("verif: header name outside the modelled set");
    }
}

/// Hook H8: capacity of the BufReader that parse_response / BufReaderWrite create (8 KiB in
/// production).  CBMC only tracks arrays of up to 64 elements element-wise; a larger buffer makes
/// every byte read back from it non-constant for the symbolic executor.
pub const HEAD_BUF_CAP: usize = 48;
