// Shared verification support, compiled into attohttpc as `crate::verif` under cfg(kani) only.
// Included by the H1 hook in src/lib.rs.  Nothing here is part of the library.

use std::io::{self, Read, Write};

/// Shrunken refill buffer of ChunkedReader (hook H3).  Production value: 64 KiB.
pub const MAX_BUFFER_LEN: usize = 4;

pub const WIRE_CAP: usize = 64;
pub const OUT_CAP: usize = 160;

#[derive(Clone, Copy, PartialEq, Eq, Debug)]
pub enum Fault {
    Eof,
    Reset,
    WouldBlock,
    TimedOut,
}

#[derive(Clone, Copy, PartialEq, Eq, Debug)]
pub enum Seg {
    /// a read returns as much as the caller's buffer and the remaining wire allow
    Whole,
    /// every read returns exactly one byte
    OneByte,
    /// the first segment ends at offset p, the rest arrives as one segment
    SplitAt(usize),
    /// every read returns at most m bytes
    Max(usize),
}

/// Scripted in-memory transport.  Contract: a read with a non-empty buffer returns >= 1 byte
/// while bytes are available; at the end of the script it produces `fault` (forever).
pub struct Scripted {
    pub data: [u8; WIRE_CAP],
    pub len: usize,
    pub pos: usize,
    pub seg: Seg,
    pub fault: Fault,
    /// number of non-empty reads issued while the cursor was at the end of the script
    pub end_hits: usize,
    pub reads: usize,
    pub out: [u8; OUT_CAP],
    pub out_len: usize,
    /// out_len at the moment of the first read (usize::MAX before any read)
    pub out_at_first_read: usize,
    /// out_len at the moment of the latest read
    pub out_at_last_read: usize,
    pub out_overflow: bool,
    pub flushes: usize,
}

impl std::fmt::Debug for Scripted {
    fn fmt(&self, _f: &mut std::fmt::Formatter<'_>) -> std::fmt::Result {
        Ok(())
    }
}

impl Scripted {
    pub fn new(data: [u8; WIRE_CAP], len: usize, seg: Seg, fault: Fault) -> Scripted {
        Scripted {
            data,
            len,
            pos: 0,
            seg,
            fault,
            end_hits: 0,
            reads: 0,
            out: [0; OUT_CAP],
            out_len: 0,
            out_at_first_read: usize::MAX,
            out_at_last_read: 0,
            out_overflow: false,
            flushes: 0,
        }
    }

    pub fn from_slice(bytes: &[u8], seg: Seg, fault: Fault) -> Scripted {
        let mut data = [0u8; WIRE_CAP];
        let mut i = 0;
        while i < bytes.len() {
            data[i] = bytes[i];
            i += 1;
        }
        Scripted::new(data, bytes.len(), seg, fault)
    }

    pub fn written(&self) -> &[u8] {
        &self.out[..self.out_len]
    }
}

pub fn fault_result(f: Fault) -> io::Result<usize> {
    match f {
        Fault::Eof => Ok(0),
        Fault::Reset => Err(io::ErrorKind::ConnectionReset.into()),
        Fault::WouldBlock => Err(io::ErrorKind::WouldBlock.into()),
        Fault::TimedOut => Err(io::ErrorKind::TimedOut.into()),
    }
}

impl Read for Scripted {
    fn read(&mut self, buf: &mut [u8]) -> io::Result<usize> {
        if buf.is_empty() {
            return Ok(0);
        }
        self.reads += 1;
        if self.out_at_first_read == usize::MAX {
            self.out_at_first_read = self.out_len;
        }
        self.out_at_last_read = self.out_len;
        if self.pos >= self.len {
            self.end_hits += 1;
            return fault_result(self.fault);
        }
        let mut n = std::cmp::min(buf.len(), self.len - self.pos);
        match self.seg {
            Seg::Whole => {}
            Seg::OneByte => n = 1,
            Seg::SplitAt(p) => {
                if self.pos < p {
                    n = std::cmp::min(n, p - self.pos);
                }
            }
            Seg::Max(m) => n = std::cmp::min(n, m),
        }
        buf[..n].copy_from_slice(&self.data[self.pos..self.pos + n]);
        self.pos += n;
        Ok(n)
    }
}

impl Write for Scripted {
    fn write(&mut self, buf: &[u8]) -> io::Result<usize> {
        let room = OUT_CAP - self.out_len;
        if buf.len() > room {
            self.out_overflow = true;
            return Err(io::ErrorKind::WriteZero.into());
        }
        self.out[self.out_len..self.out_len + buf.len()].copy_from_slice(buf);
        self.out_len += buf.len();
        Ok(buf.len())
    }

    fn flush(&mut self) -> io::Result<()> {
        self.flushes += 1;
        Ok(())
    }
}

/// Plain byte sink with a fixed capacity (for writer-side harnesses).
pub struct Sink<const N: usize> {
    pub out: [u8; N],
    pub len: usize,
    pub calls: usize,
}

impl<const N: usize> Sink<N> {
    pub fn new() -> Self {
        Sink {
            out: [0; N],
            len: 0,
            calls: 0,
        }
    }
    pub fn bytes(&self) -> &[u8] {
        &self.out[..self.len]
    }
}

impl<const N: usize> Write for Sink<N> {
    fn write(&mut self, buf: &[u8]) -> io::Result<usize> {
        self.calls += 1;
        if buf.len() > N - self.len {
            return Err(io::ErrorKind::WriteZero.into());
        }
        self.out[self.len..self.len + buf.len()].copy_from_slice(buf);
        self.len += buf.len();
        Ok(buf.len())
    }
    fn flush(&mut self) -> io::Result<()> {
        Ok(())
    }
}

// ---------------------------------------------------------------------------------------------
// Dial hook (H2): BaseStream::connect hands the peer it was about to dial to the harness.

#[derive(Clone, Copy, PartialEq, Eq, Debug)]
pub enum DialHost {
    None,
    Domain { bytes: [u8; 16], len: usize },
    V4([u8; 4]),
    V6([u16; 8]),
}

#[derive(Clone, Copy, PartialEq, Eq, Debug)]
pub struct DialRecord {
    pub host: DialHost,
    pub port: u16,
    pub https: bool,
}

pub const MAX_DIALS: usize = 4;
pub static mut DIAL_COUNT: usize = 0;
pub static mut DIAL_LOG: [DialRecord; MAX_DIALS] = [DialRecord {
    host: DialHost::None,
    port: 0,
    https: false,
}; MAX_DIALS];
/// Wire image each successive dial will serve (index = dial number).
pub static mut DIAL_WIRE: [([u8; WIRE_CAP], usize); MAX_DIALS] = [([0; WIRE_CAP], 0); MAX_DIALS];
pub static mut DIAL_REFUSE: bool = false;

pub fn dial(host: &url::Host<&str>, port: u16, scheme: &str) -> crate::Result<Scripted> {
    let rec_host = match host {
        url::Host::Domain(d) => {
            let b = d.as_bytes();
            let mut bytes = [0u8; 16];
            let mut i = 0;
            while i < b.len() && i < 16 {
                bytes[i] = b[i];
                i += 1;
            }
            DialHost::Domain { bytes, len: b.len() }
        }
        url::Host::Ipv4(a) => DialHost::V4(a.octets()),
        url::Host::Ipv6(a) => DialHost::V6(a.segments()),
    };
    unsafe {
        let k = DIAL_COUNT;
        assert!(k < MAX_DIALS, "verif: more dials than the harness provisioned");
        DIAL_LOG[k] = DialRecord {
            host: rec_host,
            port,
            https: scheme.len() == 5,
        };
        DIAL_COUNT = k + 1;
        if DIAL_REFUSE {
            return Err(crate::ErrorKind::Io(io::ErrorKind::ConnectionRefused.into()).into());
        }
        let (data, len) = DIAL_WIRE[k];
        Ok(Scripted::new(data, len, Seg::Whole, Fault::Eof))
    }
}

// ---------------------------------------------------------------------------------------------
// Resolver override + attempt-order probe for happy::connect (C17 ordering clause).

pub static mut RESOLVED_N: usize = 0;
pub static mut RESOLVED_IS6: [bool; 8] = [false; 8];
pub static mut ORDER_N: usize = 0;
pub static mut ORDER: [u16; 8] = [0; 8];

/// Stands in for `(domain, port).to_socket_addrs()`: address i carries its resolver index as port.
pub fn resolved_addrs() -> Vec<std::net::SocketAddr> {
    use std::net::{IpAddr, Ipv4Addr, Ipv6Addr, SocketAddr};
    let mut v = Vec::with_capacity(8);
    let mut i = 0;
    unsafe {
        while i < RESOLVED_N {
            let ip = if RESOLVED_IS6[i] {
                IpAddr::V6(Ipv6Addr::new(0, 0, 0, 0, 0, 0, 0, 1))
            } else {
                IpAddr::V4(Ipv4Addr::new(127, 0, 0, 1))
            };
            v.push(SocketAddr::new(ip, i as u16));
            i += 1;
        }
    }
    v
}

/// Receives the iterator happy::connect is about to race over and records the order.
pub fn record_attempt_order<'a, I: Iterator<Item = &'a std::net::SocketAddr>>(it: I) -> io::Result<std::net::TcpStream> {
    unsafe {
        ORDER_N = 0;
        for a in it {
            if ORDER_N < 8 {
                ORDER[ORDER_N] = a.port();
            }
            ORDER_N += 1;
        }
    }
    Err(io::ErrorKind::Other.into())
}

// ---------------------------------------------------------------------------------------------
// Url factory: url::Url has no constructor other than the parser, which is out of reach for the
// solver.  The factory lays the fields out exactly as the parser would for the grammar
//   scheme "://" [ user [ ":" pass ] "@" ] host [ ":" port ] path [ "?" query ] [ "#" fragment ]
// and transmutes a field-for-field mirror (url 2.5.8).  Validated natively against Url::parse by
// /verif/tools/urlfactory (same struct definitions).

include!("urlfactory.rs");

// ---------------------------------------------------------------------------------------------
// Stubs for std kernels (naive equivalents).

pub fn memchr_naive(x: u8, text: &[u8]) -> Option<usize> {
    let mut i = 0;
    while i < text.len() {
        if text[i] == x {
            return Some(i);
        }
        i += 1;
    }
    None
}

pub fn ascii_lower(b: u8) -> u8 {
    if b >= b'A' && b <= b'Z' {
        b + 32
    } else {
        b
    }
}

pub fn is_digit(b: u8) -> bool {
    b >= b'0' && b <= b'9'
}

pub fn hex_val(b: u8) -> Option<usize> {
    match b {
        b'0'..=b'9' => Some((b - b'0') as usize),
        b'a'..=b'f' => Some((b - b'a') as usize + 10),
        b'A'..=b'F' => Some((b - b'A') as usize + 10),
        _ => None,
    }
}
