// harnesses for module streams (included under cfg(kani))
