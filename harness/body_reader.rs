// C01 / C02 / C05 / C19 on the three body framings, driven through the real BodyReader over the
// scripted transport (BaseStream::Verif).

include!("hmacro.rs");

mod verif_body {
    use super::*;
    use crate::verif::{ch, drive, Case, Ch, Fault, Script, Scripted, Seg};
    use std::io::BufReader;

    // NOTE: the chunked decoder is driven as ChunkedReader<BaseStream> (the exact instantiation stored in
    // BodyReader::Chunked) and not through the BodyReader enum: with CBMC 6.11 the state of a
    // ChunkedReader<BaseStream> nested inside a second enum payload is no longer constant-propagated
    // (every loop bound becomes symbolic; a single read did not finish in 200 s).  The Length and
    // Close variants go through the real BodyReader.
    pub fn chunked_reader(t: Scripted, cap: usize) -> ChunkedReader<BaseStream> {
        ChunkedReader::new(BufReader::with_capacity(cap, BaseStream::Verif(t)))
    }
    pub fn length_reader(t: Scripted, cap: usize, n: u64) -> BodyReader {
        BodyReader::Length(BufReader::with_capacity(cap, BaseStream::Verif(t)).take(n))
    }
    pub fn close_reader(t: Scripted, cap: usize) -> BodyReader {
        BodyReader::Close(BufReader::with_capacity(cap, BaseStream::Verif(t)))
    }

    #[derive(Clone, Copy, PartialEq)]
    pub enum Framing {
        Chunked,
        Length,
        Close,
    }

    // ------------------------------------------------------------------------------------- C01
    /// well-formed body, complete on the wire (+ optional trailing garbage); read to the end with
    /// caller buffers of `rd` bytes; `cap` = BufReader capacity.
    pub fn c01_case(framing: Framing, case: &Case, seg: Seg, cap: usize, rd: usize) {
        // Close framing has no garbage by definition (everything up to EOF is payload)
        let mut script = case.transport(case.wire_len, seg, Fault::Eof);
        let d = match framing {
            Framing::Chunked => {
                let mut r = chunked_reader(script.handle(), cap);
                let d = drive(&mut r, case, rd, case.pay_len + 4, 2);
                std::mem::forget(r);
                d
            }
            Framing::Length => {
                let mut r = length_reader(script.handle(), cap, case.pay_len as u64);
                let d = drive(&mut r, case, rd, case.pay_len + 4, 2);
                std::mem::forget(r);
                d
            }
            Framing::Close => {
                let mut r = close_reader(script.handle(), cap);
                let d = drive(&mut r, case, rd, case.pay_len + 4, 2);
                std::mem::forget(r);
                d
            }
        };
        assert!(!d.bad_byte, "C01: delivered byte differs from the framed payload");
        assert!(!d.overrun, "C01: bytes delivered from beyond the end of the frame");
        assert!(!d.err, "C01: well-formed body produced an error");
        assert!(d.eof, "C01: end of body not reported");
        assert!(d.delivered == case.pay_len, "C01: payload bytes lost");
        assert!(!d.data_after_eof, "C01: data after end-of-body");
        assert!(d.reads_after_terminal == 2, "C01: post-EOF reads not exercised");
        kani::cover!(d.eof && d.delivered == case.pay_len, "must: complete body read");
    }

    macro_rules! c01_chunked {
        ($name:ident, $shape:expr, $garbage:expr, $seg:expr, $cap:expr, $rd:expr) => {
            c01_chunked!($name, $shape, $garbage, $seg, $cap, $rd, false);
        };
        ($name:ident, $shape:expr, $garbage:expr, $seg:expr, $cap:expr, $rd:expr, $upper:expr) => {
            verif_harness!($name, 40, {
                let shape: &[Ch] = &$shape;
                let case = Case::chunked(shape, $garbage, $upper);
                c01_case(Framing::Chunked, &case, $seg, $cap, $rd);
            });
        };
    }
    macro_rules! c01_raw {
        ($name:ident, $framing:expr, $n:expr, $garbage:expr, $seg:expr, $cap:expr, $rd:expr) => {
            verif_harness!($name, 40, {
                let case = Case::raw($n, $garbage);
                c01_case($framing, &case, $seg, $cap, $rd);
            });
        };
    }

    const X1: Ch = Ch { size: 3, zeros: 0, ext: 1, bare_lf: false };
    const X2: Ch = Ch { size: 2, zeros: 0, ext: 2, bare_lf: false };
    const Z2: Ch = Ch { size: 5, zeros: 2, ext: 0, bare_lf: false };
    const LF: Ch = Ch { size: 2, zeros: 0, ext: 0, bare_lf: true };
    const BL: Ch = Ch { size: 1, zeros: 1, ext: 3, bare_lf: false };

    // quick core set
    c01_chunked!(c01_q_chunked_empty_whole, [], 0, Seg::Whole, 8, 1);
    c01_chunked!(c01_q_chunked_s3_whole_rd8, [ch(3)], 0, Seg::Whole, 64, 8);
    c01_chunked!(c01_q_chunked_s4_s1_onebyte_rd2, [ch(4), ch(1)], 0, Seg::OneByte, 8, 2);
    c01_chunked!(c01_q_chunked_s5_straddle_rd3, [ch(5)], 2, Seg::Whole, 8, 3);
    c01_chunked!(c01_q_chunked_s9_straddle2_rd8, [ch(9)], 0, Seg::Max(3), 4, 8);
    c01_chunked!(c01_q_chunked_s10_hexlower_rd1, [ch(10)], 1, Seg::Whole, 64, 1, false);
    c01_chunked!(c01_q_chunked_s11_hexupper_rd3, [ch(11)], 0, Seg::Max(5), 64, 3, true);
    c01_chunked!(c01_q_chunked_ext_zeros_rd2, [X1, Z2], 3, Seg::Max(2), 3, 2);
    c01_chunked!(c01_q_chunked_ext2_lf_blank_rd8, [X2, LF, BL], 0, Seg::Whole, 64, 8, true);
    c01_chunked!(c01_q_chunked_s17_rd8, [ch(17)], 0, Seg::Whole, 16, 8);
    c01_raw!(c01_q_length_n0_g2, Framing::Length, 0, 2, Seg::Whole, 8, 1);
    c01_raw!(c01_q_length_n5_g3_rd2, Framing::Length, 5, 3, Seg::Whole, 64, 2);
    c01_raw!(c01_q_length_n6_onebyte_rd8, Framing::Length, 6, 1, Seg::OneByte, 2, 8);
    c01_raw!(c01_q_close_n0, Framing::Close, 0, 0, Seg::Whole, 8, 3);
    c01_raw!(c01_q_close_n6_split_rd3, Framing::Close, 6, 0, Seg::SplitAt(2), 4, 3);
    c01_raw!(c01_q_close_n5_rd1, Framing::Close, 5, 0, Seg::Max(2), 1, 1);

    verif_harness!(c01_qtwin_chunked, 40, {
        let case = Case::chunked(&[ch(4), ch(1)], 0, false);
        c01_case(Framing::Chunked, &case, Seg::OneByte, 8, 2);
        assert!(false, "twin: must be reported as FAILURE");
    });

    include!("gen_c01_thorough.rs");
}

// ----------------------------------------------------------------------------------------- C02
mod verif_body_c02 {
    use super::verif_body::*;
    use super::*;
    use crate::verif::{ch, drive, Case, Ch, Drive, Fault, Script, Scripted, Seg};

    fn drive_framing(framing: Framing, script: &mut Script, case: &Case, cap: usize, rd: usize, extra: usize) -> Drive {
        match framing {
            Framing::Chunked => {
                let mut r = chunked_reader(script.handle(), cap);
                let d = drive(&mut r, case, rd, case.pay_len + 3 + extra, extra);
                std::mem::forget(r);
                d
            }
            Framing::Length => {
                let mut r = length_reader(script.handle(), cap, case.pay_len as u64);
                let d = drive(&mut r, case, rd, case.pay_len + 3 + extra, extra);
                std::mem::forget(r);
                d
            }
            Framing::Close => {
                let mut r = close_reader(script.handle(), cap);
                let d = drive(&mut r, case, rd, case.pay_len + 3 + extra, extra);
                std::mem::forget(r);
                d
            }
        }
    }

    /// The wire is cut after `cut` bytes (cut < frame_len) and the transport then produces `fault`
    /// for ever (resume == false) or once, continuing with the rest of the wire (resume == true).
    pub fn c02_cut(framing: Framing, case: &Case, cut: usize, fault: Fault, resume: bool, seg: Seg, cap: usize, rd: usize) {
        let mut script = case.transport(cut, seg, fault);
        if resume {
            script.resume_len = case.wire_len;
        }
        let d = drive_framing(framing, &mut script, case, cap, rd, 2);
        assert!(!d.bad_byte, "C02: bytes handed out are not a prefix of the payload (fabricated byte)");
        assert!(!d.overrun, "C02: more bytes handed out than the payload holds");
        let incomplete = !resume && !(framing == Framing::Close && fault == Fault::Eof);
        if incomplete {
            assert!(!d.eof_before_err, "C02: truncated body reported as cleanly finished (Ok(0) without an error)");
            assert!(d.err, "C02: truncated body: no read returned an error");
            assert!(d.delivered <= case.present_at[cut], "C02: delivered bytes that never arrived");
        } else if resume && fault == Fault::Eof {
            // an EOF in mid-body followed by more data cannot happen on a real socket: not asserted
        } else if resume {
            // transient error (timed-out / would-block read), the peer then continues: whatever
            // the reader does afterwards, it must not report a clean end before all payload bytes
            // were handed out
            assert!(!(d.eof && !d.err), "C02: transient read error swallowed");
            if d.eof_before_err {
                assert!(false, "C02: clean end-of-body reported before the transient error");
            }
        }
        kani::cover!(d.err, "error path taken");
    }

    /// all cut offsets of one shape in one harness (concrete loop; every iteration is an
    /// independent reader over an independent transport)
    pub fn c02_all_cuts(framing: Framing, case: &Case, fault: Fault, resume: bool, seg: Seg, cap: usize, rd: usize) {
        c02_cuts(framing, case, fault, resume, seg, cap, rd, 0, usize::MAX);
    }

    /// cut offsets from..min(to, frame_len)
    pub fn c02_cuts(framing: Framing, case: &Case, fault: Fault, resume: bool, seg: Seg, cap: usize, rd: usize, from: usize, to: usize) {
        let mut cut = from;
        while cut < case.frame_len && cut < to {
            c02_cut(framing, case, cut, fault, resume, seg, cap, rd);
            cut += 1;
        }
        kani::cover!(true, "must: all cut offsets explored");
    }

    macro_rules! c02_chunked {
        ($name:ident, $shape:expr, $fault:expr, $resume:expr, $seg:expr, $cap:expr, $rd:expr, $from:expr, $to:expr) => {
            verif_harness!($name, 40, {
                let shape: &[Ch] = &$shape;
                let case = Case::chunked(shape, 0, false);
                assert!($from < case.frame_len, "harness shape error: empty cut range");
                c02_cuts(Framing::Chunked, &case, $fault, $resume, $seg, $cap, $rd, $from, $to);
            });
        };
    }
    macro_rules! c02_chunked_concrete {
        ($name:ident, $shape:expr, $fault:expr, $resume:expr, $seg:expr, $cap:expr, $rd:expr, $from:expr, $to:expr) => {
            verif_harness!($name, 40, {
                unsafe {
                    crate::verif::CONCRETE_PAYLOAD = true;
                }
                let shape: &[Ch] = &$shape;
                let case = Case::chunked(shape, 0, false);
                assert!($from < case.frame_len, "harness shape error: empty cut range");
                c02_cuts(Framing::Chunked, &case, $fault, $resume, $seg, $cap, $rd, $from, $to);
            });
        };
    }
    macro_rules! c02_raw {
        ($name:ident, $framing:expr, $n:expr, $fault:expr, $resume:expr, $seg:expr, $cap:expr, $rd:expr, $from:expr, $to:expr) => {
            verif_harness!($name, 40, {
                let case = Case::raw($n, 0);
                assert!($from < case.frame_len, "harness shape error: empty cut range");
                c02_cuts($framing, &case, $fault, $resume, $seg, $cap, $rd, $from, $to);
            });
        };
    }

    include!("gen_c02.rs");

    verif_harness!(c02_qtwin_chunked, 40, {
        let case = Case::chunked(&[ch(3)], 0, false);
        c02_all_cuts(Framing::Chunked, &case, Fault::Reset, false, Seg::Whole, 8, 2);
        assert!(false, "twin: must be reported as FAILURE");
    });
}

// ----------------------------------------------------------------------------------------- C19
mod verif_body_c19 {
    use super::verif_body::*;
    use super::*;
    use crate::verif::{ch, Case, Ch, Fault, Script, Seg};
    use std::io::Read;

    fn pump<R: Read>(r: &mut R, script: *const Script, case: &Case, avail: usize, rd: usize) {
        let mut buf = [0u8; 8];
        let mut delivered = 0;
        let mut i = 0;
        while i < avail && delivered < avail {
            match r.read(&mut buf[..rd]) {
                Ok(n) => {
                    assert!(n >= 1, "C19: read returned no data although payload bytes had already arrived");
                    let mut j = 0;
                    while j < n {
                        assert!(delivered + j < case.pay_len && buf[j] == case.payload[delivered + j], "C19: wrong byte delivered");
                        j += 1;
                    }
                    delivered += n;
                }
                Err(e) => {
                    std::mem::forget(e);
                    assert!(false, "C19: read failed (would block) although payload bytes had already arrived");
                }
            }
            assert!(unsafe { (*script).end_hits } == 0, "C19: a read that could be satisfied waited for bytes the server had not sent yet");
            i += 1;
        }
        assert!(delivered >= avail, "C19: arrived payload not delivered");
    }

    /// The server pauses for ever after `pause` bytes: a transport read at that point is the event
    /// "the client blocks" (recorded in end_hits, answered with WouldBlock).
    pub fn c19_pause(framing: Framing, case: &Case, pause: usize, seg: Seg, cap: usize, rd: usize, via_enum: bool) {
        let mut script = case.transport(pause, seg, Fault::WouldBlock);
        let sp: *const Script = &script;
        match framing {
            Framing::Chunked => {
                let avail = case.complete_at[pause];
                let mut r = chunked_reader(script.handle(), cap);
                pump(&mut r, sp, case, avail, rd);
                std::mem::forget(r);
            }
            // Length/Close: the std readers BodyReader::{Length,Close} wrap, instantiated exactly as
            // there (Take<BufReader<BaseStream>>, BufReader<BaseStream>).  Going through the BodyReader
            // enum costs > 10x here (reader state inside the enum payload is not constant-propagated
            // by CBMC); the enum arms themselves are exercised by the C01/C02 families and by the
            // c19_*_viaenum harnesses.
            Framing::Length => {
                let avail = case.present_at[pause];
                if via_enum {
                    let mut r = length_reader(script.handle(), cap, case.pay_len as u64);
                    pump(&mut r, sp, case, avail, rd);
                    std::mem::forget(r);
                } else {
                    let mut r = std::io::BufReader::with_capacity(cap, BaseStream::Verif(script.handle())).take(case.pay_len as u64);
                    pump(&mut r, sp, case, avail, rd);
                    std::mem::forget(r);
                }
            }
            Framing::Close => {
                let avail = case.present_at[pause];
                if via_enum {
                    let mut r = close_reader(script.handle(), cap);
                    pump(&mut r, sp, case, avail, rd);
                    std::mem::forget(r);
                } else {
                    let mut r = std::io::BufReader::with_capacity(cap, BaseStream::Verif(script.handle()));
                    pump(&mut r, sp, case, avail, rd);
                    std::mem::forget(r);
                }
            }
        }
    }

    pub fn c19_pauses(framing: Framing, case: &Case, seg: Seg, cap: usize, rd: usize, from: usize, to: usize, via_enum: bool) {
        let mut p = from;
        while p <= case.frame_len && p < to {
            c19_pause(framing, case, p, seg, cap, rd, via_enum);
            p += 1;
        }
        kani::cover!(true, "must: pause points explored");
    }

    macro_rules! c19_chunked {
        ($name:ident, $shape:expr, $seg:expr, $cap:expr, $rd:expr, $from:expr, $to:expr) => {
            verif_harness!($name, 40, {
                let shape: &[Ch] = &$shape;
                let case = Case::chunked(shape, 0, false);
                assert!($from <= case.frame_len, "harness shape error: empty pause range");
                c19_pauses(Framing::Chunked, &case, $seg, $cap, $rd, $from, $to, false);
            });
        };
    }
    macro_rules! c19_raw {
        ($name:ident, $framing:expr, $n:expr, $seg:expr, $cap:expr, $rd:expr) => {
            c19_raw!($name, $framing, $n, $seg, $cap, $rd, false);
        };
        ($name:ident, $framing:expr, $n:expr, $seg:expr, $cap:expr, $rd:expr, $via:expr) => {
            verif_harness!($name, 12, {
                let case = Case::raw($n, 0);
                c19_pauses($framing, &case, $seg, $cap, $rd, 0, 99, $via);
            });
        };
    }

    include!("gen_c19.rs");

    // through the real BodyReader enum (slow, see above): caller buffer smaller than what one
    // transport read delivered, so that later reads start with bytes left over in the BufReader
    c19_raw!(c19_q_length_n3_viaenum_r2, Framing::Length, 3, Seg::Whole, 8, 2, true);
    c19_raw!(c19_q_close_n3_viaenum_r2, Framing::Close, 3, Seg::Whole, 8, 2, true);
    c19_raw!(c19_t_length_n2_viaenum, Framing::Length, 2, Seg::Whole, 8, 1, true);
    c19_raw!(c19_t_close_n2_viaenum, Framing::Close, 2, Seg::OneByte, 8, 8, true);
    c19_raw!(c19_t_length_n4_viaenum_r3, Framing::Length, 4, Seg::Max(3), 8, 3, true);

    verif_harness!(c19_qtwin_chunked, 40, {
        let case = Case::chunked(&[ch(2), ch(1)], 0, false);
        c19_pauses(Framing::Chunked, &case, Seg::Whole, 8, 1, 0, 7, false);
        assert!(false, "twin: must be reported as FAILURE");
    });
}

// ----------------------------------------------------------------------------------------- C03
mod verif_body_c03 {
    use super::*;
    use crate::verif::{Fault, Script, Seg};
    use std::io::BufReader;

    /// parse_content_length on every field value of N bytes (any byte a HeaderValue can hold):
    /// Ok(v) iff all bytes are ASCII digits and the number fits 64 bits; v is that number.
    fn pcl_all<const N: usize>() {
        let raw: [u8; N] = kani::any();
        let hv = HeaderValue::from_bytes(&raw);
        if let Ok(v) = &hv {
            let r = parse_content_length(v);
            let mut all_digits = N > 0;
            let mut val: u64 = 0;
            let mut overflow = false;
            let mut i = 0;
            while i < N {
                if raw[i] >= b'0' && raw[i] <= b'9' {
                    let d = (raw[i] - b'0') as u64;
                    if val > (u64::MAX - d) / 10 {
                        overflow = true;
                    } else {
                        val = val * 10 + d;
                    }
                } else {
                    all_digits = false;
                }
                i += 1;
            }
            match &r {
                Ok(x) => {
                    assert!(all_digits, "C03: non-numeric Content-Length accepted");
                    assert!(!overflow, "C03: Content-Length beyond 64 bits accepted");
                    assert!(*x == val, "C03: Content-Length parsed to a wrong value");
                }
                Err(_) => assert!(!(all_digits && !overflow), "C03: valid Content-Length refused"),
            }
            kani::cover!(r.is_ok(), "must: some value accepted");
            kani::cover!(r.is_err(), "must: some value refused");
            std::mem::forget(r);
        }
        std::mem::forget(hv);
    }
    verif_harness!(c03_q_content_length_len1, 12, { pcl_all::<1>() });
    verif_harness!(c03_q_content_length_len2, 12, { pcl_all::<2>() });
    verif_harness!(c03_q_content_length_len3, 12, { pcl_all::<3>() });
    verif_harness!(c03_t_content_length_len4, 12, { pcl_all::<4>() });

    /// 19..21 digit values (all digits symbolic): exact value or refusal, never a wrapped number
    fn pcl_long<const N: usize>() {
        let digs: [u8; N] = kani::any();
        let mut raw = [0u8; N];
        let mut i = 0;
        while i < N {
            kani::assume(digs[i] < 10);
            raw[i] = b'0' + digs[i];
            i += 1;
        }
        let hv = HeaderValue::from_bytes(&raw).unwrap();
        let r = parse_content_length(&hv);
        let mut val: u64 = 0;
        let mut overflow = false;
        let mut i = 0;
        while i < N {
            let d = digs[i] as u64;
            if val > (u64::MAX - d) / 10 {
                overflow = true;
            } else if !overflow {
                val = val * 10 + d;
            }
            i += 1;
        }
        match &r {
            Ok(x) => assert!(!overflow && *x == val, "C03: Content-Length beyond 64 bits accepted or wrapped"),
            Err(_) => assert!(overflow, "C03: 64-bit Content-Length refused"),
        }
        kani::cover!(r.is_ok(), "must: accepted");
        std::mem::forget(r);
        std::mem::forget(hv);
    }
    verif_harness!(c03_q_content_length_20digits, 24, { pcl_long::<20>() });
    verif_harness!(c03_t_content_length_21digits, 24, { pcl_long::<21>() });
    verif_harness!(c03_t_content_length_19digits, 24, { pcl_long::<19>() });

    verif_harness!(c03_qtwin_content_length, 12, {
        pcl_all::<2>();
        assert!(false, "twin: must be reported as FAILURE");
    });

    // NOTE: the framing decision table (BodyReader::new / is_chunked / is_content_length on header maps)
    // is not decided: values read back out of a HeaderMap are not constant for CBMC's symbolic
    // executor (heap-allocated entry table), `split(',')`/`trim`/`parse` on them unwind every loop to
    // the bound; one concrete row (Transfer-Encoding: "gzip, CHUNKED") did not finish in 300 s.
}
