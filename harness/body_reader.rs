// harnesses for module body_reader (included under cfg(kani))
