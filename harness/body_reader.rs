// C01 / C02 / C05 / C19 on the three body framings, driven through the real BodyReader over the
// scripted transport (BaseStream::Verif).

mod verif_body {
    use super::*;
    use crate::verif::{ch, drive, Case, Ch, Fault, Script, Scripted, Seg};
    use std::io::BufReader;

    // NOTE: the chunked decoder is driven as ChunkedReader<BaseStream> (the exact instantiation stored in
    // BodyReader::Chunked) and not through the BodyReader enum: with CBMC 6.11 the state of a
    // ChunkedReader<BaseStream> nested inside a second enum payload is no longer constant-propagated
    // (every loop bound becomes symbolic; a single read did not finish in 200 s).  The Length and
    // Close variants go through the real BodyReader.
    pub fn chunked_reader(t: Scripted, cap: usize) -> ChunkedReader<BaseStream> {
        ChunkedReader::new(BufReader::with_capacity(cap, BaseStream::Verif(t)))
    }
    pub fn length_reader(t: Scripted, cap: usize, n: u64) -> BodyReader {
        BodyReader::Length(BufReader::with_capacity(cap, BaseStream::Verif(t)).take(n))
    }
    pub fn close_reader(t: Scripted, cap: usize) -> BodyReader {
        BodyReader::Close(BufReader::with_capacity(cap, BaseStream::Verif(t)))
    }

    #[derive(Clone, Copy, PartialEq)]
    pub enum Framing {
        Chunked,
        Length,
        Close,
    }

    // ------------------------------------------------------------------------------------- C01
    /// well-formed body, complete on the wire (+ optional trailing garbage); read to the end with
    /// caller buffers of `rd` bytes; `cap` = BufReader capacity.
    pub fn c01_case(framing: Framing, case: &Case, seg: Seg, cap: usize, rd: usize) {
        // Close framing has no garbage by definition (everything up to EOF is payload)
        let mut script = case.transport(case.wire_len, seg, Fault::Eof);
        let d = match framing {
            Framing::Chunked => {
                let mut r = chunked_reader(script.handle(), cap);
                let d = drive(&mut r, case, rd, case.pay_len + 4, 2);
                std::mem::forget(r);
                d
            }
            Framing::Length => {
                let mut r = length_reader(script.handle(), cap, case.pay_len as u64);
                let d = drive(&mut r, case, rd, case.pay_len + 4, 2);
                std::mem::forget(r);
                d
            }
            Framing::Close => {
                let mut r = close_reader(script.handle(), cap);
                let d = drive(&mut r, case, rd, case.pay_len + 4, 2);
                std::mem::forget(r);
                d
            }
        };
        assert!(!d.bad_byte, "C01: delivered byte differs from the framed payload");
        assert!(!d.overrun, "C01: bytes delivered from beyond the end of the frame");
        assert!(!d.err, "C01: well-formed body produced an error");
        assert!(d.eof, "C01: end of body not reported");
        assert!(d.delivered == case.pay_len, "C01: payload bytes lost");
        assert!(!d.data_after_eof, "C01: data after end-of-body");
        assert!(d.reads_after_terminal == 2, "C01: post-EOF reads not exercised");
        kani::cover!(d.eof && d.delivered == case.pay_len, "must: complete body read");
    }

    macro_rules! c01_chunked {
        ($name:ident, $shape:expr, $garbage:expr, $seg:expr, $cap:expr, $rd:expr) => {
            c01_chunked!($name, $shape, $garbage, $seg, $cap, $rd, false);
        };
        ($name:ident, $shape:expr, $garbage:expr, $seg:expr, $cap:expr, $rd:expr, $upper:expr) => {
            #[kani::proof]
            #[kani::unwind(40)]
            #[kani::stub(core::slice::memchr::memchr, crate::verif::memchr_naive)]
            #[kani::stub(core::str::from_utf8, crate::verif::from_utf8_model)]
            fn $name() {
                let shape: &[Ch] = &$shape;
                let case = Case::chunked(shape, $garbage, $upper);
                c01_case(Framing::Chunked, &case, $seg, $cap, $rd);
            }
        };
    }
    macro_rules! c01_raw {
        ($name:ident, $framing:expr, $n:expr, $garbage:expr, $seg:expr, $cap:expr, $rd:expr) => {
            #[kani::proof]
            #[kani::unwind(40)]
            #[kani::stub(core::slice::memchr::memchr, crate::verif::memchr_naive)]
            #[kani::stub(core::str::from_utf8, crate::verif::from_utf8_model)]
            fn $name() {
                let case = Case::raw($n, $garbage);
                c01_case($framing, &case, $seg, $cap, $rd);
            }
        };
    }

    const X1: Ch = Ch { size: 3, zeros: 0, ext: 1, bare_lf: false };
    const X2: Ch = Ch { size: 2, zeros: 0, ext: 2, bare_lf: false };
    const Z2: Ch = Ch { size: 5, zeros: 2, ext: 0, bare_lf: false };
    const LF: Ch = Ch { size: 2, zeros: 0, ext: 0, bare_lf: true };
    const BL: Ch = Ch { size: 1, zeros: 1, ext: 3, bare_lf: false };

    // quick core set
    c01_chunked!(c01_q_chunked_empty_whole, [], 0, Seg::Whole, 8, 1);
    c01_chunked!(c01_q_chunked_s3_whole_rd8, [ch(3)], 0, Seg::Whole, 64, 8);
    c01_chunked!(c01_q_chunked_s4_s1_onebyte_rd2, [ch(4), ch(1)], 0, Seg::OneByte, 8, 2);
    c01_chunked!(c01_q_chunked_s5_straddle_rd3, [ch(5)], 2, Seg::Whole, 8, 3);
    c01_chunked!(c01_q_chunked_s9_straddle2_rd8, [ch(9)], 0, Seg::Max(3), 4, 8);
    c01_chunked!(c01_q_chunked_s10_hexlower_rd1, [ch(10)], 1, Seg::Whole, 64, 1, false);
    c01_chunked!(c01_q_chunked_s11_hexupper_rd3, [ch(11)], 0, Seg::Max(5), 64, 3, true);
    c01_chunked!(c01_q_chunked_ext_zeros_rd2, [X1, Z2], 3, Seg::Max(2), 3, 2);
    c01_chunked!(c01_q_chunked_ext2_lf_blank_rd8, [X2, LF, BL], 0, Seg::Whole, 64, 8, true);
    c01_chunked!(c01_q_chunked_s17_rd8, [ch(17)], 0, Seg::Whole, 16, 8);
    c01_raw!(c01_q_length_n0_g2, Framing::Length, 0, 2, Seg::Whole, 8, 1);
    c01_raw!(c01_q_length_n5_g3_rd2, Framing::Length, 5, 3, Seg::Whole, 64, 2);
    c01_raw!(c01_q_length_n6_onebyte_rd8, Framing::Length, 6, 1, Seg::OneByte, 2, 8);
    c01_raw!(c01_q_close_n0, Framing::Close, 0, 0, Seg::Whole, 8, 3);
    c01_raw!(c01_q_close_n6_split_rd3, Framing::Close, 6, 0, Seg::SplitAt(2), 4, 3);
    c01_raw!(c01_q_close_n5_rd1, Framing::Close, 5, 0, Seg::Max(2), 1, 1);

    #[kani::proof]
    #[kani::unwind(40)]
    #[kani::stub(core::slice::memchr::memchr, crate::verif::memchr_naive)]
    #[kani::stub(core::str::from_utf8, crate::verif::from_utf8_model)]
    fn c01_qtwin_chunked() {
        let case = Case::chunked(&[ch(4), ch(1)], 0, false);
        c01_case(Framing::Chunked, &case, Seg::OneByte, 8, 2);
        assert!(false, "twin: must be reported as FAILURE");
    }

    include!("gen_c01_thorough.rs");
}
