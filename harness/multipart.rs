// harnesses for module multipart (included under cfg(kani))
