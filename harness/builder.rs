// harnesses for module builder (included under cfg(kani))
