// harnesses for module builder (included under cfg(kani))

/// read-only view of a builder's effective settings for harnesses in other modules
pub(crate) fn builder_settings<B>(b: &RequestBuilder<B>) -> &BaseSettings {
    &b.base_settings
}
