// harnesses for module body (included under cfg(kani))
