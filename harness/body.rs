// C07 (chunk framing of arbitrary write sequences) and C10 (body replay kernel).

include!("hmacro.rs");

mod verif_bodyw {
    use super::*;
    use crate::verif::{hex_val, Sink};

    /// Reference decoder for a chunked body as the request side must produce it (hex in either
    /// case, leading zeros allowed, CR LF line ends, no trailers).  Written as a single-pass state
    /// machine over a constant-bound loop: the bytes produced by `write!("{:x}")` come out of a
    /// 128-byte formatting buffer and are not constant for the symbolic executor, so any loop whose
    /// trip count depended on them would be unwound to the bound at every nesting level.
    /// Returns (payload length, zero-size chunks seen, well-formed and fully consumed).
    pub fn decode_chunked(wire: &[u8; 32], len: usize, out: &mut [u8; 32]) -> (usize, usize, bool) {
        // states: 0 size digits (none yet), 1 size digits (some), 2 LF after size, 3 data, 4 CR after
        // data, 5 LF after data, 6 CR of last line, 7 LF of last line, 8 done, 9 error
        let mut st = 0u8;
        let mut size = 0usize;
        let mut remaining = 0usize;
        let mut n = 0usize;
        let mut zeros = 0usize;
        let mut i = 0;
        while i < 32 {
            if i < len {
                let b = wire[i];
                st = match st {
                    0 | 1 => match hex_val(b) {
                        Some(d) if size < 4096 => {
                            size = size * 16 + d;
                            1
                        }
                        Some(_) => 9,
                        None => {
                            if st == 1 && b == b'\r' {
                                2
                            } else {
                                9
                            }
                        }
                    },
                    2 => {
                        if b != b'\n' {
                            9
                        } else if size == 0 {
                            zeros += 1;
                            6
                        } else {
                            remaining = size;
                            3
                        }
                    }
                    3 => {
                        if n < 32 {
                            out[n] = b;
                        }
                        n += 1;
                        remaining -= 1;
                        if remaining == 0 {
                            4
                        } else {
                            3
                        }
                    }
                    4 => {
                        if b == b'\r' {
                            5
                        } else {
                            9
                        }
                    }
                    5 => {
                        if b == b'\n' {
                            size = 0;
                            0
                        } else {
                            9
                        }
                    }
                    6 => {
                        if b == b'\r' {
                            7
                        } else {
                            9
                        }
                    }
                    7 => {
                        if b == b'\n' {
                            8
                        } else {
                            9
                        }
                    }
                    // anything after the terminator: a second frame / stray bytes
                    8 => 9,
                    _ => 9,
                };
            }
            i += 1;
        }
        (n, zeros, st == 8)
    }

    /// A user-defined streaming body issues the write calls `lens` (symbolic bytes) on the chunked
    /// writer, directly or through a BufWriter of capacity 2 (as the Json body does); then close().
    fn write_sequence(lens: &[usize], via_bufwriter: bool) {
        // a pre-sized Vec as sink: std's Vec<u8> Write impl has no retry loop and copies with a
        // plain memcpy; the fixed-array sink made symbolic execution blow up on lengths that come
        // out of core::fmt
        let mut sink: Vec<u8> = Vec::with_capacity(32);
        let mut all = [0u8; 32];
        let mut total = 0;
        {
            let mut w = ChunkedWriter(&mut sink);
            if via_bufwriter {
                let mut bw = std::io::BufWriter::with_capacity(2, &mut w);
                let mut k = 0;
                while k < lens.len() {
                    let mut data = [0u8; 20];
                    let mut j = 0;
                    while j < lens[k] {
                        data[j] = kani::any();
                        all[total] = data[j];
                        total += 1;
                        j += 1;
                    }
                    let r = bw.write_all(&data[..lens[k]]);
                    assert!(r.is_ok(), "C07: write failed");
                    k += 1;
                }
                let r = bw.flush();
                assert!(r.is_ok());
                std::mem::forget(bw);
            } else {
                let mut k = 0;
                while k < lens.len() {
                    let mut data = [0u8; 20];
                    let mut j = 0;
                    while j < lens[k] {
                        data[j] = kani::any();
                        all[total] = data[j];
                        total += 1;
                        j += 1;
                    }
                    let r = w.write(&data[..lens[k]]);
                    match r {
                        Ok(m) => assert!(m == lens[k], "C07: chunked writer accepted a different number of bytes"),
                        Err(_) => assert!(false, "C07: write failed"),
                    }
                    k += 1;
                }
            }
            let r = w.close();
            assert!(r.is_ok());
        }
        let mut out = [0u8; 32];
        let mut wire = [0u8; 32];
        let wlen = sink.len();
        assert!(wlen <= 32, "harness: sink too small");
        let mut c = 0;
        while c < 32 {
            if c < wlen {
                wire[c] = sink[c];
            }
            c += 1;
        }
        let (n, zeros, ok) = decode_chunked(&wire, wlen, &mut out);
        assert!(zeros <= 1 || !ok, "C07: more than one zero-length chunk in a well-formed body");
        assert!(ok, "C07: request body is not exactly one well-formed chunked body (a zero-length chunk before the end terminates it early)");
        assert!(n == total, "C07: chunked body carries a different number of octets than were written");
        let mut i = 0;
        while i < total {
            assert!(out[i] == all[i], "C07: chunked body octets differ from what was written");
            i += 1;
        }
        kani::cover!(true, "must: sequence written and decoded");
        std::mem::forget(sink);
    }

    verif_harness!(c07_q_chunkw_1_2, 70, { write_sequence(&[1, 2], false) });
    verif_harness!(c07_q_chunkw_2_0_1, 70, { write_sequence(&[2, 0, 1], false) });
    verif_harness!(c07_q_chunkw_17, 70, { write_sequence(&[17], false) });
    verif_harness!(c07_q_chunkw_none, 70, { write_sequence(&[], false) });
    verif_harness!(c07_q_chunkw_0, 70, { write_sequence(&[0], false) });
    verif_harness!(c07_q_chunkw_buf_3_1, 70, { write_sequence(&[3, 1], true) });
    verif_harness!(c07_q_chunkw_buf_0_1_0, 70, { write_sequence(&[0, 1, 0], true) });
    verif_harness!(c07_t_chunkw_2_0_0_2, 70, { write_sequence(&[2, 0, 0, 2], false) });
    verif_harness!(c07_t_chunkw_16, 70, { write_sequence(&[16], false) });
    verif_harness!(c07_t_chunkw_buf_5_2, 70, { write_sequence(&[5, 2], true) });
    verif_harness!(c07_t_chunkw_1_1_1, 70, { write_sequence(&[1, 1, 1], false) });
    // NOTE: a transport that accepts fewer bytes than offered (short writes) cannot be driven through
    // ChunkedWriter here: the retry loops of write_all / write_fmt run on lengths that come out of
    // core::fmt, which are not constant for the symbolic executor, and are unwound to the bound at
    // every level (a 5-byte write over a 2-bytes-per-call sink did not finish in 400 s).

    verif_harness!(c07_qtwin_chunkw, 70, {
        write_sequence(&[1, 2], false);
        assert!(false, "twin: must be reported as FAILURE");
    });

    // ---------------------------------------------------------------------------------- C10 (i)
    /// kind() + write() twice on the same body object (what send() does on a 307/308 hop) yields the
    /// same octets and the same kind both times.
    fn replay_text<const N: usize>() {
        let data: [u8; N] = kani::any();
        let mut i = 0;
        while i < N {
            kani::assume(data[i] < 0x80);
            i += 1;
        }
        let s = unsafe { std::str::from_utf8_unchecked(&data) };
        let mut b = Text(s);
        let mut s1: Sink<16> = Sink::new();
        let mut s2: Sink<16> = Sink::new();
        let k1 = b.kind();
        let r1 = b.write(&mut s1);
        let k2 = b.kind();
        let r2 = b.write(&mut s2);
        assert!(r1.is_ok() && r2.is_ok());
        assert!(matches!(k1, Ok(BodyKind::KnownLength(n)) if n == N as u64), "C10/C07: Text body announces a wrong length");
        assert!(matches!(k2, Ok(BodyKind::KnownLength(n)) if n == N as u64), "C10: body kind changes on replay");
        assert!(s1.len == N && s2.len == N, "C10/C07: body octets written differ from the announced length");
        let mut j = 0;
        while j < N {
            assert!(s1.out[j] == data[j] && s2.out[j] == data[j], "C10: body bytes differ between hops");
            j += 1;
        }
        kani::cover!(true, "must: replayed");
    }
    fn replay_bytes<const N: usize>() {
        let data: [u8; N] = kani::any();
        let mut b = Bytes(data);
        let mut s1: Sink<16> = Sink::new();
        let mut s2: Sink<16> = Sink::new();
        let k1 = b.kind();
        let r1 = b.write(&mut s1);
        let k2 = b.kind();
        let r2 = b.write(&mut s2);
        assert!(r1.is_ok() && r2.is_ok());
        assert!(matches!(k1, Ok(BodyKind::KnownLength(n)) if n == N as u64), "C10/C07: Bytes body announces a wrong length");
        assert!(matches!(k2, Ok(BodyKind::KnownLength(n)) if n == N as u64), "C10: body kind changes on replay");
        assert!(s1.len == N && s2.len == N, "C10/C07: body octets written differ from the announced length");
        let mut j = 0;
        while j < N {
            assert!(s1.out[j] == data[j] && s2.out[j] == data[j], "C10: body bytes differ between hops");
            j += 1;
        }
        kani::cover!(true, "must: replayed");
    }
    verif_harness!(c10_q_replay_text_n0, 20, { replay_text::<0>() });
    verif_harness!(c10_q_replay_text_n3, 20, { replay_text::<3>() });
    verif_harness!(c10_q_replay_bytes_n4, 20, { replay_bytes::<4>() });
    verif_harness!(c10_t_replay_bytes_n9, 20, { replay_bytes::<9>() });
    verif_harness!(c10_qtwin_replay, 20, {
        replay_bytes::<4>();
        assert!(false, "twin: must be reported as FAILURE");
    });
    verif_harness!(c10_q_replay_empty, 20, {
        let mut b = Empty;
        let mut s1: Sink<4> = Sink::new();
        assert!(matches!(b.kind(), Ok(BodyKind::Empty)) && b.write(&mut s1).is_ok() && matches!(b.kind(), Ok(BodyKind::Empty)));
        assert!(b.write(&mut s1).is_ok() && s1.len == 0, "C10: empty body wrote octets");
        kani::cover!(true, "must: replayed");
    });
}
