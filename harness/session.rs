// harnesses for module session (included under cfg(kani))
