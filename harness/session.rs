// C16: settings flow by value from session to request (copy-on-write over Arc<BaseSettings>).

include!("hmacro.rs");

mod verif_session {
    use super::*;
    use crate::verif::{make_url, UrlSpec};

    /// stub for url::Url::parse: every base URL in these harnesses is "http://h/"
    pub fn url_parse_fixed(_input: &str) -> std::result::Result<url::Url, url::ParseError> {
        Ok(make_url(&UrlSpec::simple(false, b"h")))
    }

    fn plain_session() -> Session {
        let st = crate::request::verif_request::settings(crate::request::proxy::verif_proxy_settings(None, None, Vec::new()));
        Session {
            base_settings: Arc::new(st),
        }
    }

    #[kani::proof]
    #[kani::unwind(6)]
    #[kani::stub(url::Url::parse, url_parse_fixed)]
    fn c16_q_session_change_after_request() {
        let a: u32 = kani::any();
        let b: u32 = kani::any();
        let mut s = plain_session();
        s.max_redirections(a);
        let r1 = s.get("x");
        // later change on the session must not reach r1 (copy-on-write)
        s.max_redirections(b);
        let v1 = crate::request::builder::builder_settings(&r1);
        assert!(v1.max_redirections == a, "C16: request sees a setting changed on the session after the request was created");
        assert!(s.base_settings.max_redirections == b, "C16: session setter lost");
        kani::cover!(a != b, "must: distinct values");
        std::mem::forget(r1);
        std::mem::forget(s);
    }

    #[kani::proof]
    #[kani::unwind(6)]
    #[kani::stub(url::Url::parse, url_parse_fixed)]
    fn c16_q_request_change_does_not_reach_session() {
        let a: u32 = kani::any();
        let c: u32 = kani::any();
        let f: bool = kani::any();
        let mut s = plain_session();
        s.max_redirections(a);
        s.follow_redirects(f);
        let r2 = s.post("x").max_redirections(c);
        let v2 = crate::request::builder::builder_settings(&r2);
        assert!(v2.max_redirections == c && v2.follow_redirects == f, "C16: request-level override lost or session value at creation not inherited");
        assert!(s.base_settings.max_redirections == a && s.base_settings.follow_redirects == f, "C16: request-level setter changed the session");
        kani::cover!(a != c, "must: distinct values");
        std::mem::forget(r2);
        std::mem::forget(s);
    }
}
