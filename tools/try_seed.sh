#!/bin/bash
# tools/try_seed.sh <patch.diff> <PROP> [tier] [extra args]: apply a seeded change to /repo, run the check, undo.
P=$1; PROP=$2; TIER=${3:-quick}; shift 3
cd /repo && git diff --quiet || { echo "/repo has uncommitted changes"; exit 9; }
git -C /repo apply "$P" || exit 8
( cd /verif && VERIF_BUILD=/verif/.build/seedrun bin/check $PROP --tier $TIER --no-evidence "$@" ) ; rc=$?
git -C /repo checkout -- .
echo "EXIT=$rc"
exit $rc
