#!/bin/bash
# tools/run_all.sh <tier> [props...]: run the checks one after the other, log exit codes
TIER=${1:-quick}; shift
PROPS=${@:-C17 C11 C03 C10 C08 C05 C07 C04 C01 C19 C02}
cd /verif; mkdir -p .build/logs
for p in $PROPS; do
  s=$(date +%s)
  bin/check $p --tier $TIER > .build/logs/$p-$TIER.out 2>&1; rc=$?
  echo "$p $TIER exit=$rc wall=$(( $(date +%s) - s ))s : $(grep '^property=' .build/logs/$p-$TIER.out | tail -1)" >> .build/logs/summary-$TIER.txt
done
echo "ALL DONE" >> .build/logs/summary-$TIER.txt
