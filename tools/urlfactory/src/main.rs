// Native validation of the Url factory used by the Kani harnesses: for every tuple of the grammar the
// harnesses draw from, the transmuted mirror must be indistinguishable from Url::parse(text).
#![allow(dead_code)]
include!("../../../harness/urlfactory.rs");

fn same(a: &url::Url, b: &url::Url) -> bool {
    a == b
        && a.as_str() == b.as_str()
        && a.scheme() == b.scheme()
        && a.host_str() == b.host_str()
        && a.host() == b.host()
        && a.port() == b.port()
        && a.port_or_known_default() == b.port_or_known_default()
        && a.path() == b.path()
        && a.query() == b.query()
        && a.fragment() == b.fragment()
        && a.username() == b.username()
        && a.password() == b.password()
        && a.has_authority() == b.has_authority()
        && format!("{}", a) == format!("{}", b)
}

fn strings(alpha: &[u8], max: usize) -> Vec<Vec<u8>> {
    let mut out = vec![vec![]];
    let mut last = vec![vec![]];
    for _ in 0..max {
        let mut next = vec![];
        for s in &last {
            for &c in alpha {
                let mut t = s.clone();
                t.push(c);
                next.push(t);
            }
        }
        out.extend(next.iter().cloned());
        last = next;
    }
    out
}

fn check(spec: &UrlSpec, n: &mut u64, bad: &mut u64, rejected: &mut Vec<String>) {
    let text = String::from_utf8(url_text(spec)).unwrap();
    *n += 1;
    match url::Url::parse(&text) {
        Ok(p) => {
            let f = make_url(spec);
            if !same(&p, &f) {
                *bad += 1;
                if *bad < 20 {
                    eprintln!("MISMATCH {} parsed={:?} factory={:?}", text, p, f);
                }
            }
        }
        Err(_) => rejected.push(text),
    }
}

/// The predicate the harnesses assume for domain hosts (mirrored in harness/lib.rs: host_ok).
fn host_ok(h: &[u8]) -> bool {
    if h.is_empty() {
        return false;
    }
    true
}

fn main() {
    let mut n = 0u64;
    let mut bad = 0u64;
    let mut rejected = vec![];
    // hosts over the label alphabet
    for h in strings(b"ab.-", 5) {
        if !host_ok(&h) {
            continue;
        }
        for https in [false, true] {
            let spec = UrlSpec::simple(https, &h);
            check(&spec, &mut n, &mut bad, &mut rejected);
        }
    }
    let host_rejected = rejected.len();
    for r in rejected.iter().take(10) {
        eprintln!("host rejected by Url::parse: {}", r);
    }
    // userinfo / path / query / fragment / port combos on a fixed host
    let hosts: [HostSpec; 4] = [
        HostSpec::Domain(b"a.b"),
        HostSpec::V4([10, 0, 0, 1], b"10.0.0.1"),
        HostSpec::V6([0, 0, 0, 0, 0, 0, 0, 1], b"::1"),
        HostSpec::V6([0x2001, 0xdb8, 0, 0, 0, 0, 0, 1], b"2001:db8::1"),
    ];
    let small = strings(b"ab0", 2);
    let paths = strings(b"ab/-0", 3);
    let queries = strings(b"a=&0", 2);
    let ports: Vec<(u16, Vec<u8>)> = [1u16, 8, 79, 81, 442, 444, 8080, 65535, 80, 443]
        .iter()
        .map(|p| (*p, p.to_string().into_bytes()))
        .collect();
    let mut rej2 = vec![];
    for host in hosts.iter() {
        for https in [false, true] {
            for user in small.iter() {
                for pass in [None, Some(&b"a"[..]), Some(&b"b0"[..])] {
                    let spec = UrlSpec { https, user, pass, host: *host, port: None, path: b"", query: None, fragment: None };
                    check(&spec, &mut n, &mut bad, &mut rej2);
                }
            }
            for (pv, pt) in ports.iter() {
                let default = if https { 443 } else { 80 };
                if *pv == default {
                    continue; // the parser drops a default port: the factory models that as port: None
                }
                let spec = UrlSpec { https, user: b"", pass: None, host: *host, port: Some((*pv, pt)), path: b"a", query: None, fragment: None };
                check(&spec, &mut n, &mut bad, &mut rej2);
            }
            for path in paths.iter() {
                for q in [None, Some(&b""[..]), Some(&b"a=0"[..])] {
                    for f in [None, Some(&b""[..]), Some(&b"b"[..])] {
                        let spec = UrlSpec { https, user: b"", pass: None, host: *host, port: None, path, query: q, fragment: f };
                        check(&spec, &mut n, &mut bad, &mut rej2);
                    }
                }
            }
            for q in queries.iter() {
                for f in small.iter() {
                    let spec = UrlSpec { https, user: b"u", pass: Some(b"p"), host: *host, port: Some((8080, b"8080")), path: b"x/y", query: Some(q), fragment: Some(f) };
                    check(&spec, &mut n, &mut bad, &mut rej2);
                }
            }
        }
    }
    // all 4-digit and some 5-digit ports (text <-> value agreement)
    for pv in (1u32..=65535).step_by(7) {
        let pv = pv as u16;
        let pt = pv.to_string().into_bytes();
        for https in [false, true] {
            let default = if https { 443 } else { 80 };
            if pv == default {
                continue;
            }
            let spec = UrlSpec { https, user: b"", pass: None, host: HostSpec::Domain(b"h"), port: Some((pv, &pt)), path: b"", query: None, fragment: None };
            check(&spec, &mut n, &mut bad, &mut rej2);
        }
    }
    for r in rej2.iter().take(10) {
        eprintln!("rejected by Url::parse: {}", r);
    }
    println!("urlfactory: {} tuples compared, {} mismatches, {} hosts rejected by the parser, {} other tuples rejected", n, bad, host_rejected, rej2.len());
    if bad > 0 || !rej2.is_empty() || host_rejected > 0 {
        std::process::exit(1);
    }
}
